"""C08 - pruning, retaining and extracting yield exactly the induced subtree.

Oracle: RefTree.restrict(K, suppress) computed on the spec (independent of the library)."""
import itertools

from hypothesis import strategies as st

from lib import runner, shapes, treechecks
from lib.refmodel import RefTree, all_ordered_shapes
from lib.snapshot import snapshot

CONFIG = {
    "shards": {"quick": 8, "thorough": 16},
    "budget_s": {"quick": 120, "thorough": 1500},
    "rule": ("Hypothesis: shape (2-9 leaves quick / <= 25 thorough; polytomies, unifurcations, labelled internal nodes "
             "without taxa) x length pattern (incl. missing and partially missing) x surviving set K from the classes "
             "{one leaf, two leaves, all but one, all, a whole clade, complement of a clade, random} x 12 API variants "
             "(prune_taxa, prune_taxa_with_labels, retain_taxa, retain_taxa_with_labels, filter_leaf_nodes, "
             "prune_subtree, prune_leaves_without_taxa, extract_tree(filter), extract_tree_with_taxa, "
             "..._with_taxa_labels, ..._without_taxa, ..._without_taxa_labels) x suppress_unifurcations x "
             "update_bipartitions x rooting. Exhaustive part: every non-empty subset x every variant x both "
             "suppress settings for every ordered shape with <= 5 (quick) / <= 6 (thorough) leaves. History part: 2-3 "
             "pruning/extraction steps in a row on the same objects, optionally after an encoding. internal_taxa part: trees "
             "(2-7 / 2-14 leaves) whose non-seed internal nodes carry taxa on a drawn mask, a drawn set of leaf and "
             "internal labels named, flags (leaf, internal) in {(T,F),(F,T),(T,T)} x suppress x rooting: "
             "prune_taxa_with_labels vs prune_taxa must agree and the surviving original leaves equal the reference "
             "(non-trivial there = an internal taxon is named and some leaf survives). Non-trivial = K "
             "empties at least one clade or leaves the root (or another internal node) with one child; distinct = "
             "(spec, K, variant, flags)."),
    "exhaustive_note": {"quick": "all ordered shapes with 2-5 leaves x all non-empty leaf subsets x 11 variants x suppress",
                        "thorough": "all ordered shapes with 2-6 leaves x all non-empty leaf subsets x 11 variants x suppress"},
    "assumptions": ["every leaf carries a taxon, internal nodes carry no taxa", "root edge has no length",
                    "edge-length clauses asserted only when all non-root lengths are present or all absent",
                    "in-place variants with suppress_unifurcations=False and update_bipartitions=True may return either "
                    "the suppressed or unsuppressed restriction (re-encoding suppresses by default)"],
}

INPLACE = ["prune_taxa", "prune_taxa_with_labels", "retain_taxa", "retain_taxa_with_labels", "filter_leaf_nodes",
           "prune_subtree", "prune_leaves_without_taxa"]
EXTRACT = ["extract_tree", "extract_tree_with_taxa", "extract_tree_with_taxa_labels", "extract_tree_without_taxa",
           "extract_tree_without_taxa_labels", "extract_tree_flags"]
VARIANTS = INPLACE + EXTRACT
TOL = 1e-9


@st.composite
def cases(draw, max_leaves):
    sl = draw(shapes.with_lengths(shapes.shapes(min_leaves=2, max_leaves=max_leaves, max_arity=5, unifurcations=True),
                                  patterns=("none", "unit", "smallint", "dyadic", "float", "partial")))
    spec = sl["spec"]
    # labels on internal nodes
    k = 0
    for s in shapes.spec_nodes(spec):
        if s["ch"] and draw(st.booleans()):
            s["lab"] = "n%d" % k
        k += 1
    return {"spec": spec, "lenpat": sl["lenpat"], "kclass": draw(st.sampled_from(["one", "two", "allbut1", "all", "clade",
                                                                                   "coclade", "random", "random"])),
            "ksel": draw(st.integers(0, 2 ** 30)), "variant": draw(st.sampled_from(VARIANTS)),
            "su": draw(st.booleans()), "ub": draw(st.booleans()), "rooted": draw(st.sampled_from([True, False, None])),
            # filter_leaf_nodes only: recursive=False (one pass over the current leaves)
            "single_pass": draw(st.booleans()),
            # how the taxa / labels argument is handed over: the entry points document "any iterable"
            "container": draw(st.sampled_from(["list", "list", "tuple", "set", "frozenset", "iter", "generator", "reversed"]))}


@st.composite
def history_cases(draw, max_leaves):
    sl = draw(shapes.with_lengths(shapes.shapes(min_leaves=4, max_leaves=max_leaves, max_arity=4, unifurcations=True),
                                  patterns=("unit", "smallint", "dyadic", "partial", "none")))
    steps = []
    for _ in range(draw(st.integers(2, 3))):
        steps.append({"kclass": draw(st.sampled_from(["allbut1", "clade", "coclade", "random", "random"])), "ksel": draw(st.integers(0, 2 ** 30)),
                      "variant": draw(st.sampled_from(VARIANTS)), "su": draw(st.booleans()), "ub": draw(st.booleans()),
                      "continue_on_copy": draw(st.booleans())})
    return {"spec": sl["spec"], "lenpat": sl["lenpat"], "rooted": draw(st.sampled_from([True, False, None])), "steps": steps,
            "encode_first": draw(st.booleans())}


@st.composite
def label_cases(draw, max_leaves):
    c = draw(cases(max_leaves))
    c["collide"] = draw(st.lists(st.tuples(st.integers(0, 30), st.integers(0, 30), st.integers(0, 2)), min_size=1, max_size=3))
    c["variant"] = draw(st.sampled_from(["prune_taxa_with_labels", "retain_taxa_with_labels", "extract_tree_with_taxa_labels",
                                        "extract_tree_without_taxa_labels", "prune_taxa", "retain_taxa", "filter_leaf_nodes"]))
    c["ub"] = False
    return c


def choose_K(rt, kclass, ksel):
    leaves = sorted(rt.leafset(), key=lambda s: int(s[1:]))
    n = len(leaves)
    cl = rt.clusters()
    if kclass == "one":
        return frozenset([leaves[ksel % n]])
    if kclass == "two" and n >= 2:
        a = ksel % n
        b = (a + 1 + (ksel // n) % (n - 1)) % n
        return frozenset([leaves[a], leaves[b]])
    if kclass == "allbut1":
        return frozenset(leaves) - frozenset([leaves[ksel % n]])
    if kclass == "all":
        return frozenset(leaves)
    if kclass in ("clade", "coclade"):
        cands = [c for i, c in sorted(cl.items()) if 0 < len(c) < n]
        if cands:
            c = cands[ksel % len(cands)]
            return c if kclass == "clade" else frozenset(leaves) - c
    K = frozenset(l for k, l in enumerate(leaves) if (ksel >> k) & 1)
    if not K:
        K = frozenset([leaves[ksel % n]])
    return K


def same_tree(ctx, got, want, key, detail, lengths, tol_scale=1.0):
    """Structural equality up to child order, by clusters; lengths compared with tolerance when `lengths`."""
    gc, wc = got.clusters(), want.clusters()
    ok = True
    stack = [(got.root, want.root)]
    while stack and ok:
        g, w = stack.pop()
        if gc[g] != wc[w] or got.taxon[g] != want.taxon[w] or got.label[g] != want.label[w]:
            ok = False
            break
        if lengths:
            a, b = got.length[g], want.length[w]
            if (a is None) != (b is None) or (a is not None and abs(a - b) > TOL * (1 + abs(tol_scale))):
                ok = False
                break
        gk = dict((gc[c], c) for c in got.children[g])
        wk = dict((wc[c], c) for c in want.children[w])
        if len(gk) != len(got.children[g]) or set(gk) != set(wk) or len(got.children[g]) != len(want.children[w]):
            ok = False
            break
        for c in gk:
            stack.append((gk[c], wk[c]))
    return ok


def check_case(ctx, case):
    spec = case["spec"]
    n = RefTree.from_spec(spec).n_leaves()
    ns, taxa, bits = shapes.build_namespace(shapes.plain_history(n))
    tree = shapes.build_tree(spec, ns, taxa, is_rooted=case["rooted"])
    run_variant(ctx, tree, ns, bits, case, spec, taxa=taxa)


def check_labels(ctx, case):
    """Namespaces in which several taxa carry the same label (exact duplicates or case variants): the by-label
    variants must act on EVERY taxon matching a named label, exactly like the by-taxon variants given those taxa."""
    spec = case["spec"]
    n = RefTree.from_spec(spec).n_leaves()
    labels = ["T%d" % i for i in range(n)]
    for (i, j, how) in case["collide"]:
        i, j = i % n, j % n
        if i != j:
            labels[j] = labels[i] if how == 0 else (labels[i].lower() if how == 1 else labels[i].upper())
    ns, taxa, bits = shapes.build_namespace(shapes.plain_history(n), labels)
    tree = shapes.build_tree(spec, ns, taxa, is_rooted=case["rooted"])
    if len(set(l.lower() for l in labels)) < n:
        ctx.cls("labels:namespace_with_colliding_labels")
    run_variant(ctx, tree, ns, bits, case, spec, taxa=taxa, labels=labels)


def check_history(ctx, case):
    """2-3 pruning / extraction steps in a row on the same objects (optionally with an encoding made before the first
    step): every step is judged against the induced subtree of the snapshot taken just before it."""
    spec = case["spec"]
    n = RefTree.from_spec(spec).n_leaves()
    ns, taxa, bits = shapes.build_namespace(shapes.plain_history(n))
    tree = shapes.build_tree(spec, ns, taxa, is_rooted=case["rooted"])
    if case.get("encode_first"):
        tree.encode_bipartitions(suppress_unifurcations=False, collapse_unrooted_basal_bifurcation=False)
    for k, stp in enumerate(case["steps"]):
        cur, problems = snapshot(tree)
        if problems:
            raise runner.HarnessError(repr(problems))
        if cur.n_leaves() < 2 or any(cur.taxon[i] is None for i in cur.leaves()):
            return
        c = dict(stp)
        c["rooted"] = tree.is_rooted
        c["lenpat"] = case["lenpat"]
        if k:
            ctx.evaluations += 1   # every step of a history is one judged (tree, operation) case
        res = run_variant(ctx, tree, ns, bits, c, spec, step=k, taxa=taxa)
        if res is None:
            return
        if c["variant"] in EXTRACT and stp.get("continue_on_copy"):
            tree = res
    ctx.cls("history:%d_steps" % len(case["steps"]))


def run_variant(ctx, tree, ns, bits, case, spec, step=None, taxa=None, labels=None):
    import dendropy
    from dendropy.utility.error import SeedNodeDeletionException
    variant = case["variant"]
    su, ub = case["su"], case["ub"]
    rooted_flag = case["rooted"]
    # taxon identity in the model is "T<index>" whatever the labels are (labels may collide)
    idx_of = dict((id(t), i) for i, t in taxa.items())
    tkey = lambda t: "T%d" % idx_of[id(t)]
    real = lambda ids: sorted(set((labels[int(x[1:])] if labels is not None else x) for x in ids))
    pre, problems = snapshot(tree, taxon_key=tkey)
    if problems:
        raise runner.HarnessError(repr(problems))
    src = pre
    n = src.n_leaves()
    K = choose_K(src, "coclade" if variant == "prune_subtree" else case["kclass"], case["ksel"])
    full = src.leafset()
    flag_reject = None
    if variant == "extract_tree_flags":
        # extract_tree with a predicate that rejects a drawn set of nodes (leaves AND internal nodes) under all four
        # settings of is_apply_filter_to_leaf_nodes / is_apply_filter_to_internal_nodes: a rejection only counts for the
        # class the flags name; a counted rejection takes the whole subtree along
        sel = case["ksel"]
        lf, inf = bool(sel & 1), bool(sel & 2)
        pool = [i for i in src.nodes() if i != src.root]
        rejected = set(i for k_, i in enumerate(pool) if (sel >> (2 + k_ % 24)) & 1) if pool else set()
        counted = set(i for i in rejected if (lf if not src.children[i] else inf))
        dead = set()
        for i in counted:
            dead.update(src.preorder(i))
        K = frozenset(src.taxon[i] for i in src.leaves() if i not in dead)
        if not K:
            ctx.cls("skipped:extract_tree_flags_nothing_survives")
            return None
        flag_reject = (lf, inf, set(id(src.obj[i]) for i in rejected))
        ctx.cls("extract_tree_flags:leaf=%r:internal=%r" % (lf, inf))
        if any(not src.children[i] and i not in dead for i in rejected):
            ctx.cls("extract_tree_flags:rejected_leaf_survives_because_leaf_filter_is_off")
    if labels is not None:
        # a label names every taxon carrying it (under the namespace's case-insensitive rule): close K accordingly
        low = lambda x: labels[int(x[1:])].lower()
        keepl = set(low(x) for x in K)
        K = frozenset(x for x in full if low(x) in keepl)
    comp = full - K
    label_taxon = dict(("T%d" % i, t) for i, t in taxa.items())
    Ktaxa = [label_taxon[l] for l in sorted(K)]
    Ctaxa = [label_taxon[l] for l in sorted(comp)]
    # partially missing lengths: unifurcation suppression hands a length down to a length-less child (None counts as
    # 0) in both the in-place and the extraction code, which is what RefTree.restrict models, so lengths are compared
    # on every pattern (the basal-collapse path, which treats None differently, is compared as unrooted paths below)
    lengths_ok = True
    scale = src.total_length()
    key = "C08." + variant
    tag = "%s su=%r ub=%r rooted=%r K=%s" % (variant, su, ub, rooted_flag, sorted(K))
    pre_cl = pre.clusters()
    removed_reported = None
    single_pass = False
    result_tree = tree

    container = case.get("container", "list")
    if container != "list":
        ctx.cls("argument_container:" + container)

    def wrap(seq):
        seq = list(seq)
        if container == "tuple":
            return tuple(seq)
        if container == "set":
            return set(seq)
        if container == "frozenset":
            return frozenset(seq)
        if container == "iter":
            return iter(seq)
        if container == "generator":
            return (x for x in seq)
        if container == "reversed":
            return reversed(seq)
        return seq

    if variant == "prune_subtree":
        # only applicable when the complement is exactly one clade: choose the topmost node with that cluster
        cands = [i for i in pre.nodes() if pre_cl[i] == comp and i != pre.root]
        if not cands:
            ctx.cls("skipped:prune_subtree_needs_clade")
            return
        nd = pre.obj[cands[0]]
        ctx.call(key, tree.prune_subtree, nd, update_bipartitions=ub, suppress_unifurcations=su)
    elif variant == "prune_taxa":
        ctx.call(key, tree.prune_taxa, wrap(Ctaxa), update_bipartitions=ub, suppress_unifurcations=su)
    elif variant == "prune_taxa_with_labels":
        ctx.call(key, tree.prune_taxa_with_labels, wrap(real(comp)), update_bipartitions=ub, suppress_unifurcations=su)
    elif variant == "retain_taxa":
        ctx.call(key, tree.retain_taxa, wrap(Ktaxa), update_bipartitions=ub, suppress_unifurcations=su)
    elif variant == "retain_taxa_with_labels":
        ctx.call(key, tree.retain_taxa_with_labels, wrap(real(K)), update_bipartitions=ub, suppress_unifurcations=su)
    elif variant == "filter_leaf_nodes":
        Kset = set(K)
        single_pass = bool(case.get("single_pass"))
        if single_pass:
            ctx.cls("filter_leaf_nodes:recursive=False")
            removed_reported = ctx.call(key, tree.filter_leaf_nodes,
                                        lambda nd: nd.taxon is not None and tkey(nd.taxon) in Kset, recursive=False,
                                        update_bipartitions=ub, suppress_unifurcations=su)
        else:
            removed_reported = ctx.call(key, tree.filter_leaf_nodes,
                                        lambda nd: nd.taxon is not None and tkey(nd.taxon) in Kset,
                                        update_bipartitions=ub, suppress_unifurcations=su)
    elif variant == "prune_leaves_without_taxa":
        for i in pre.leaves():
            if pre.taxon[i] in comp:
                pre.obj[i].taxon = None
        if not comp:
            pass
        removed_reported = ctx.call(key, tree.prune_leaves_without_taxa, update_bipartitions=ub, suppress_unifurcations=su)
    else:
        Kset = set(K)
        if variant == "extract_tree":
            result_tree = ctx.call(key, tree.extract_tree, node_filter_fn=lambda nd: nd.taxon is not None and tkey(nd.taxon) in Kset,
                                   suppress_unifurcations=su)
        elif variant == "extract_tree_flags":
            lf, inf, rej_ids = flag_reject
            result_tree = ctx.call(key, tree.extract_tree, node_filter_fn=lambda nd: id(nd) not in rej_ids,
                                   suppress_unifurcations=su, is_apply_filter_to_leaf_nodes=lf, is_apply_filter_to_internal_nodes=inf)
        elif variant == "extract_tree_with_taxa":
            if len(comp) == 1 and labels is None and step is None:
                # the one taxon that is not wanted has left the namespace (remove_taxon leaves trees alone): the request
                # then names every member of the namespace, and still only the requested taxa may survive
                ns.remove_taxon(Ctaxa[0])
                ctx.cls("extract_tree_with_taxa:unwanted_leaf_taxon_no_longer_in_namespace")
            result_tree = ctx.call(key, tree.extract_tree_with_taxa, wrap(Ktaxa), suppress_unifurcations=su)
        elif variant == "extract_tree_with_taxa_labels":
            result_tree = ctx.call(key, tree.extract_tree_with_taxa_labels, wrap(real(K)), suppress_unifurcations=su)
        elif variant == "extract_tree_without_taxa":
            result_tree = ctx.call(key, tree.extract_tree_without_taxa, wrap(Ctaxa), suppress_unifurcations=su)
        elif variant == "extract_tree_without_taxa_labels":
            result_tree = ctx.call(key, tree.extract_tree_without_taxa_labels, wrap(real(comp)), suppress_unifurcations=su)

    got = treechecks.wellformed(ctx, result_tree, "result_well_formed", "C08.wellformed:" + variant, tag, taxon_key=tkey)
    inplace = variant in INPLACE
    if single_pass:
        # one pass over the leaves present at the call: exactly the rejected leaves go and are reported, nothing else
        want_removed = set(id(pre.obj[i]) for i in pre.leaves() if pre.taxon[i] not in K)
        got_removed = [id(x) for x in removed_reported]
        ctx.check(len(got_removed) == len(set(got_removed)) and set(got_removed) == want_removed, "reported_removed_nodes_single_pass",
                  "C08.removed_single_pass:" + variant, lambda: "%s reported %d nodes, expected the %d rejected leaves" % (tag, len(got_removed), len(want_removed)))
        ctx.check(frozenset(got.taxon[i] for i in got.leaves() if got.taxon[i] is not None) == K, "surviving_leaf_taxa_single_pass",
                  "C08.leafset_single_pass:" + variant, lambda: "%s leaves now %s" % (tag, got.canon()))
        if any(pre.children[i] and not (pre_cl[i] & K) for i in pre.nodes()):
            # an internal node lost all its leaves and is a (taxon-less) leaf now, as documented: the induced-subtree
            # clauses speak about the recursive form
            ctx.cls("filter_leaf_nodes:recursive=False:emptied_internal_node_left")
            return tree
        removed_reported = None
    want_s = src.restrict(K, suppress=True)
    want_u = src.restrict(K, suppress=False)
    d = lambda: "%s source=%s got=%s want=%s" % (tag, src.canon(lengths=True, labels=True), got.canon(lengths=True, labels=True),
                                                 (want_s if su else want_u).canon(lengths=True, labels=True))
    if inplace and ub and not bool(rooted_flag):
        # the requested re-encoding collapses the basal bifurcation of an unrooted tree: compare as unrooted trees
        ctx.check(got.leafset() == K and got.unrooted_split_set() == want_s.unrooted_split_set(), "induced_subtree_unrooted",
                  "C08.induced:" + variant, d)
        if src.all_lengths_present():
            pg, pw = got.leaf_paths(), want_s.leaf_paths()
            ctx.check(set(pg) == set(pw) and all(abs(pg[k][0] - pw[k][0]) <= TOL * (1 + scale) for k in pw),
                      "paths_among_survivors_unchanged", "C08.paths:" + variant, d)
    else:
        if inplace and ub and not su:
            ok = same_tree(ctx, got, want_s, key, d, lengths_ok, scale) or same_tree(ctx, got, want_u, key, d, lengths_ok, scale)
        else:
            ok = same_tree(ctx, got, want_s if su else want_u, key, d, lengths_ok, scale)
        ctx.check(ok, "induced_subtree", "C08.induced:" + variant, d)
    if inplace and ub:
        treechecks.encoding_current(ctx, result_tree, got, bits, "encoding_current_after_update", "C08.encoding:" + variant, tag)
    # reported removed nodes
    if removed_reported is not None:
        want_removed = set(id(pre.obj[i]) for i in pre.nodes() if not (pre_cl[i] & K))
        got_removed = [id(x) for x in removed_reported]
        ctx.check(len(got_removed) == len(set(got_removed)) and set(got_removed) == want_removed, "reported_removed_nodes",
                  "C08.removed:" + variant, lambda: "%s reported %d nodes, expected %d" % (tag, len(got_removed), len(want_removed)))
    if not inplace:
        # source untouched (structure, lengths, labels, taxa, node identities)
        post, problems = snapshot(tree, taxon_key=tkey)
        same_src = (not problems and post.canon(ordered=True, lengths=True, labels=True) == pre.canon(ordered=True, lengths=True, labels=True)
                    and [id(o) for o in post.obj] == [id(o) for o in pre.obj] and tree.is_rooted is rooted_flag)
        ctx.check(same_src, "extraction_leaves_source_unchanged", "C08.source_unchanged:" + variant, d)
        ctx.check(result_tree.taxon_namespace is tree.taxon_namespace and result_tree.is_rooted is rooted_flag,
                  "extraction_keeps_namespace_and_rooting", "C08.extract_meta:" + variant, tag)
        src_ids = dict((id(o), i) for i, o in enumerate(pre.obj))
        gcl = got.clusters()
        for j in got.nodes():
            nd = got.obj[j]
            es = getattr(nd, "extraction_source", None)
            okm = es is not None and id(es) in src_ids
            if okm:
                i = src_ids[id(es)]
                okm = (pre_cl[i] & K) == gcl[j] and es.label == nd.label and es.taxon is nd.taxon
            ctx.check(okm, "extraction_source_mapping", "C08.extraction_source:" + variant,
                      lambda: "%s new node over %s maps to %r" % (tag, sorted(gcl[j]), es))
    # non-triviality
    emptied = any(not (c & K) for c in src.clusters().values())
    one_child = any(sum(1 for c in src.children[i] if src.clusters()[c] & K) == 1 and len(src.children[i]) > 1 for i in src.internals())
    if emptied or one_child:
        ctx.nontrivial([spec, sorted(K), variant, su, ub, rooted_flag, step, src.canon() if step else None])
    ctx.cls("variant:" + variant)
    ctx.cls("kclass:" + case["kclass"])
    if len(K) == 1:
        ctx.cls("single_survivor")
    ctx.sample(variant if step is None else "history", {"newick": shapes.spec_to_newick(spec), "K": sorted(K), "variant": variant, "su": su, "ub": ub,
                                                       "rooted": rooted_flag, "step": step, "result": got.canon(ordered=True, lengths=True, labels=True)})
    return result_tree


_SHAPES = {}


def exhaustive_items(maxn):
    items = []
    for n in range(2, maxn + 1):
        nshapes = sum(1 for _ in all_ordered_shapes(n))
        for idx in range(nshapes):
            for ksel in range(1, 2 ** n):
                for variant in VARIANTS:
                    if variant == "prune_subtree":
                        continue
                    for su in (True, False):
                        items.append({"n": n, "idx": idx, "ksel": ksel, "variant": variant, "su": su})
    return items


def check_exh(ctx, item):
    n = item["n"]
    if n not in _SHAPES:
        _SHAPES[n] = list(all_ordered_shapes(n))
    spec = shapes.copy_spec(_SHAPES[n][item["idx"]])
    for k, s in enumerate(shapes.spec_nodes(spec)):
        if k:
            s["len"] = float(1 + (k % 3))
    case = {"spec": spec, "lenpat": "smallint", "kclass": "random", "ksel": item["ksel"], "variant": item["variant"],
            "su": item["su"], "ub": False, "rooted": True}
    check_case(ctx, case)


def check_large(ctx, item):
    from checks.c01_bipartitions import large_spec
    n = item["n"]
    spec = large_spec(item["kind"], n, n * 3 + 2)
    for k, sp in enumerate(shapes.spec_nodes(spec)):
        if k:
            sp["len"] = float(1 + (k % 4)) / 4.0
    ksel = 0
    for i in range(n):
        if (i * 2654435761) % 7 < (3 if item["keep"] == "half" else 6 if item["keep"] == "most" else 1):
            ksel |= 1 << i
    case = {"spec": spec, "lenpat": "dyadic", "kclass": "random", "ksel": ksel, "variant": item["variant"], "su": item["su"],
            "ub": item["ub"], "rooted": item["rooted"]}
    check_case(ctx, case)
    ctx.cls("large:%s" % item["kind"])


@st.composite
def internal_taxa_cases(draw, max_leaves):
    # drawn upfront: flags and masks; then the shape
    lf, inf = draw(st.sampled_from([(True, False), (False, True), (True, True), (False, True), (True, True)]))
    imask, sel, su = draw(st.integers(0, 2 ** 24)), draw(st.integers(1, 2 ** 30)), draw(st.booleans())
    spec = draw(shapes.shapes(min_leaves=2, max_leaves=max_leaves, max_arity=4, unifurcations=True))
    return {"spec": spec, "lf": lf, "inf": inf, "imask": imask, "sel": sel, "su": su,
            "rooted": draw(st.sampled_from([True, False]))}


def check_internal_taxa(ctx, case):
    """Trees whose internal nodes carry taxa too (read with suppress_internal_node_taxa=False): pruning by label and
    pruning by the taxa with those labels must agree for every setting of is_apply_filter_to_leaf_nodes /
    is_apply_filter_to_internal_nodes, and the surviving original leaves are exactly those that were neither named
    (leaf flag) nor below a named internal node (internal flag).  The seed node never carries a taxon (it has no
    parent to be removed from)."""
    import dendropy
    nodes = shapes.spec_nodes(case["spec"])  # preorder
    idx = dict((id(s), k) for k, s in enumerate(nodes))
    lab = {}
    for k, s in enumerate(nodes):
        if not s["ch"]:
            lab[k] = "L%d" % k
        elif k and (case["imask"] >> (k % 24)) & 1:
            lab[k] = "I%d" % k
    named = sorted(l for k, l in lab.items() if (case["sel"] >> (k % 30)) & 1)
    if not named:
        named = [lab[max(lab)]]
    out = {}
    for s in reversed(nodes):
        k = idx[id(s)]
        txt = "(" + ",".join(out[idx[id(c)]] for c in s["ch"]) + ")" if s["ch"] else ""
        out[k] = txt + lab.get(k, "") + (":%s" % (1 + k % 4) if k else "")
    newick = ("[&R] " if case["rooted"] else "[&U] ") + out[0] + ";"
    lf, inf, su = case["lf"], case["inf"], case["su"]
    # reference: surviving original leaves
    nset = set(named)
    dead = set()
    def mark(s, gone):
        k = idx[id(s)]
        if s["ch"]:
            gone = gone or (inf and lab.get(k) in nset)
        elif gone or (lf and lab[k] in nset):
            dead.add(lab[k])
        for c in s["ch"]:
            mark(c, gone)
    mark(nodes[0], False)
    want = set(l for l in lab.values() if l.startswith("L")) - dead
    results = []
    for route in ("labels", "taxa"):
        t = dendropy.Tree.get(data=newick, schema="newick", suppress_internal_node_taxa=False)
        try:
            if route == "labels":
                t.prune_taxa_with_labels(list(named), suppress_unifurcations=su,
                             is_apply_filter_to_leaf_nodes=lf, is_apply_filter_to_internal_nodes=inf)
            else:
                t.prune_taxa(t.taxon_namespace.get_taxa(labels=list(named)), suppress_unifurcations=su,
                             is_apply_filter_to_leaf_nodes=lf, is_apply_filter_to_internal_nodes=inf)
            surv = set(nd.taxon.label for nd in t.preorder_node_iter() if nd.taxon is not None and nd.taxon.label.startswith("L"))
            results.append(("ok", t.as_string("newick").strip(), surv))
        except Exception as e:  # compared between the routes, never swallowed: see below
            results.append(("exc", type(e).__name__, None))
    where = "%s prune %r leaf=%r internal=%r suppress_unifurcations=%r" % (newick, named, lf, inf, su)
    ctx.check(results[0][:2] == results[1][:2], "by_label_agrees_with_by_taxon_on_trees_with_internal_taxa",
              "C08.internal_taxa:labels_vs_taxa", lambda: "%s: by label %r, by taxon %r" % (where, results[0][:2], results[1][:2]))
    if want:
        for route, r in zip(("labels", "taxa"), results):
            ctx.check(r[0] == "ok" and r[2] == want, "surviving_leaves_are_the_unnamed_ones_outside_named_clades",
                      "C08.internal_taxa:survivors:" + route,
                      lambda: "%s via %s: got %r want %r" % (where, route, r[0] if r[0] != "ok" else sorted(r[2]), sorted(want)))
    has_int = any(l.startswith("I") for l in named)
    ctx.cls("internal_taxa:leaf=%r,internal=%r:%s" % (lf, inf, "internal_taxon_named" if has_int else "only_leaf_taxa_named"))
    if has_int and want:
        ctx.nontrivial([newick, named, lf, inf, su])
    ctx.sample("internal_taxa", {"newick": newick, "named": named, "leaf_flag": lf, "internal_flag": inf, "survivors": sorted(want)})


SUBCHECKS = {"random": check_case, "exhaustive": check_exh, "history": check_history, "labels": check_labels, "large": check_large,
             "internal_taxa": check_internal_taxa}


def run(ctx):
    quick = ctx.tier == "quick"
    total = 4000 if quick else 80000
    runner.run_given(ctx, "random", cases(9 if quick else 25), check_case, total // ctx.nshards)
    runner.run_items(ctx, "exhaustive", exhaustive_items(5 if quick else 6), check_exh)
    runner.run_given(ctx, "history", history_cases(9 if quick else 20), check_history, (2000 if quick else 30000) // ctx.nshards)
    sizes = [65, 129, 1030] if quick else [63, 64, 65, 129, 257, 1023, 1025, 1030, 2050]
    large = [{"kind": k, "n": n, "variant": v, "su": su, "ub": ub, "rooted": r, "keep": keep}
             for n in sizes for k in ("balanced", "random", "caterpillar", "star") if not (k == "caterpillar" and n > 600)
             for v, su, ub, r, keep in (("prune_taxa", True, False, True, "half"), ("retain_taxa_with_labels", True, True, False, "few"),
                                        ("extract_tree_with_taxa", False, False, True, "most"), ("filter_leaf_nodes", True, False, None, "half"),
                                        ("extract_tree_without_taxa_labels", True, False, False, "half"))]
    runner.run_items(ctx, "large", large, check_large)
    runner.run_given(ctx, "labels", label_cases(8 if quick else 16), check_labels, (1600 if quick else 20000) // ctx.nshards)
    runner.run_given(ctx, "internal_taxa", internal_taxa_cases(7 if quick else 14), check_internal_taxa, (1600 if quick else 20000) // ctx.nshards)
