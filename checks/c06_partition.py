"""C06 - tree-sample summaries are independent of partitioning, order and scheduling.

Part A: collection algebra on TreeArray (partition a sample into sub-collections - some empty -, build each by a drawn
route, merge with drawn operators in a drawn order) compared with ONE TreeArray filled by add_tree in the original order.
Part B: SumTrees.  The real TreeProcessor.parallel_analyze_trees and TreeAnalysisWorker.run execute in-process under a
harness-owned scheduler (fake multiprocessing.Queue/Lock, Process.start recorded): a schedule is (assignment of files to
workers, arrival permutation of results); every schedule for small file/worker counts is enumerated and compared with
serial_analyze_trees."""
import itertools
import math
import os
import queue as _queue
import shutil
import tempfile
import warnings

from hypothesis import strategies as st

from lib import runner, samples, shapes, treechecks
from lib.refmodel import RefTree
from lib.snapshot import snapshot

CONFIG = {
    "shards": {"quick": 8, "thorough": 16},
    "budget_s": {"quick": 150, "thorough": 1800},
    "rule": ("Part A (Hypothesis): sample of 1-6 trees (thorough <= 16) over 4-6 taxa (thorough <= 9) x partition into "
             "1-5 parts with a drawn number of EMPTY parts x construction route per part (add_tree, append, insert, "
             "add_trees, read from Newick text) x merge operator per step (update, extend, +=, +) x merge order and "
             "nesting x explicit/implicit is_rooted_trees x rooting flag x weights. Part B (exhaustive + Hypothesis): "
             "1-3 Newick files of 1-3 trees x worker count 1..files+2 x ALL assignments of files to workers x ALL arrival "
             "orders of the partial results x rooting mode (implicit with [&R]/[&U] tokens, implicit without tokens, "
             "forced rooted, forced unrooted), executed through the real TreeProcessor/TreeAnalysisWorker code under a "
             "harness-owned scheduler; a schedule may also name workers whose first non-blocking poll of the work queue "
             "reports it empty (legal for multiprocessing.Queue.get_nowait while items are in transit). Non-trivial = merge/schedule in which an empty part arrives after a non-empty "
             "one, or >= 2 non-empty parts merged in non-original order; distinct = (sample, partition, routes, "
             "operators, order) / (files, workers, assignment, arrival order, mode)."),
    "exhaustive_note": {"quick": "all (assignment, arrival) schedules for 2 files x 1-3 workers x 4 rooting modes",
                        "thorough": "all schedules for 2 files x 1-4 workers and 3 files x 1-3 workers x 4 rooting modes"},
    "assumptions": ["workers share only the work queue, so an OS schedule is equivalent to (file->worker assignment, arrival "
                    "order); interleavings inside multiprocessing itself (pickling, pipes) are not explored",
                    "parts always share settings and rooting, i.e. are compatible by the statement",
                    "relies on the names sumtrees.TreeAnalysisWorker, TreeProcessor.parallel_analyze_trees, sumtrees.multiprocessing"],
}

TOL = 1e-12

# ---------------------------------------------------------------------------------------------------------
# comparison of two tree arrays
# ---------------------------------------------------------------------------------------------------------


def consensus_obs(ta):
    con = ta.consensus_tree()
    rt, problems = snapshot(con)
    if problems:
        return ("malformed", problems)
    cl = rt.clusters()
    sup = sorted((sorted(cl[i]), round(getattr(rt.obj[i], "support", -1.0), 12)) for i in rt.nodes())
    return (rt.canon(), sup, con.is_rooted)


def compare_arrays(ctx, M, R, n_input, tag, input_canons=None, rooted=None):
    d = lambda extra="": "%s %s" % (extra, tag() if callable(tag) else tag)
    ctx.check(len(M) == len(R) == n_input, "merged_length", "C06.len", lambda: d("len %d vs %d (inputs %d)" % (len(M), len(R), n_input)))
    ms, rs = M.split_distribution, R.split_distribution
    ctx.check(ms.total_trees_counted == rs.total_trees_counted, "total_trees_counted", "C06.total_trees",
              lambda: d("%r vs %r" % (ms.total_trees_counted, rs.total_trees_counted)))
    ctx.check(abs(ms.sum_of_tree_weights - rs.sum_of_tree_weights) <= TOL * (1 + abs(rs.sum_of_tree_weights)), "sum_of_tree_weights",
              "C06.sum_weights", lambda: d("%r vs %r" % (ms.sum_of_tree_weights, rs.sum_of_tree_weights)))
    mc = dict((k, v) for k, v in ms.split_counts.items() if v)
    rc = dict((k, v) for k, v in rs.split_counts.items() if v)
    ctx.check(set(mc) == set(rc) and all(abs(mc[k] - rc[k]) <= TOL * (1 + abs(rc[k])) for k in rc), "split_counts", "C06.split_counts",
              lambda: d("counts differ: %r vs %r" % (sorted(mc.items()), sorted(rc.items()))))
    for k in rc:
        ctx.check(abs(ms[k] - rs[k]) <= TOL, "split_frequencies", "C06.split_frequencies", lambda: d("mask %s: %r vs %r" % (bin(k), ms[k], rs[k])))
    for k in rc:
        a = sorted(x for x in ms.split_edge_lengths.get(k, []) if x is not None)
        b = sorted(x for x in rs.split_edge_lengths.get(k, []) if x is not None)
        an = sum(1 for x in ms.split_edge_lengths.get(k, []) if x is None)
        bn = sum(1 for x in rs.split_edge_lengths.get(k, []) if x is None)
        ctx.check(a == b and an == bn, "per_split_edge_length_multiset", "C06.edge_lengths", lambda: d("mask %s: %r vs %r" % (bin(k), a, b)))
        a = sorted(x for x in ms.split_node_ages.get(k, []) if x is not None)
        b = sorted(x for x in rs.split_node_ages.get(k, []) if x is not None)
        ctx.check(a == b, "per_split_node_age_multiset", "C06.node_ages", lambda: d("mask %s: %r vs %r" % (bin(k), a, b)))
    if n_input == 0:
        return
    # consensus + supports
    cm = ctx.call("C06.consensus_after_merge", consensus_obs, M)
    cr = consensus_obs(R)
    ctx.check(cm == cr, "consensus_tree_and_supports", "C06.consensus", lambda: d("%r vs %r" % (cm, cr)))
    # per-tree queries still work, scores agree
    for name in ("calculate_log_product_of_split_supports", "calculate_sum_of_split_supports"):
        sm, im = ctx.call("C06.per_tree_query:" + name, getattr(M, name))
        sr, ir = getattr(R, name)()
        ctx.check(len(sm) == n_input, "score_list_length", "C06.scores_len:" + name, lambda: d("%d scores for %d trees" % (len(sm), n_input)))
        ctx.check(all(abs(x - y) <= 1e-9 * (1 + abs(y)) for x, y in zip(sorted(sm), sorted(sr))), "credibility_scores_multiset", "C06.scores:" + name,
                  lambda: d("%r vs %r" % (sorted(sm), sorted(sr))))
        ctx.check(abs(max(sm) - max(sr)) <= 1e-9 * (1 + abs(max(sr))), "maximum_credibility_score", "C06.max_score:" + name, lambda: d("%r vs %r" % (max(sm), max(sr))))
    for name in ("maximum_product_of_split_support_tree", "maximum_sum_of_split_support_tree"):
        tm = ctx.call("C06.per_tree_query:" + name, getattr(M, name))
        tr = getattr(R, name)()
        scores = (R.calculate_log_product_of_split_supports() if "product" in name else R.calculate_sum_of_split_supports())[0]
        mx = max(scores)
        unique = sum(1 for s in scores if abs(s - mx) <= 1e-9 * (1 + abs(mx))) == 1
        if unique:
            a, pa = snapshot(tm)
            b, pb = snapshot(tr)
            same = (a.rooted_cluster_set() == b.rooted_cluster_set()) if rooted else (a.unrooted_split_set() == b.unrooted_split_set())
            ctx.check(not pa and same, "maximum_credibility_topology_when_unique", "C06.mcc_topology:" + name, lambda: d("%s vs %s" % (a.canon(), b.canon())))
            ctx.cls("mcc_unique_maximiser")
    # iteration and restore_tree
    it = ctx.call("C06.per_tree_query:iter", lambda: list(M))
    ctx.check(len(it) == n_input, "iteration_yields_every_tree", "C06.iter", lambda: d("%d items" % len(it)))
    got = []
    for i in range(n_input):
        t = ctx.call("C06.per_tree_query:restore_tree", M.restore_tree, i)
        rt, problems = snapshot(t)
        ctx.check(not problems, "restored_tree_well_formed", "C06.restore_wellformed", lambda: d(repr(problems)))
        got.append(key_of(rt, rooted))
    got_r = []
    for i in range(n_input):
        rt, problems = snapshot(R.restore_tree(i))
        got_r.append(key_of(rt, rooted))
    ctx.check(sorted(got) == sorted(got_r), "restore_tree_same_as_serial_collection", "C06.restore_differential",
              lambda: d("%r vs %r" % (sorted(got), sorted(got_r))))
    if input_canons is not None:
        ctx.check(sorted(got) == sorted(input_canons), "restore_tree_topologies_multiset", "C06.restore_topologies",
                  lambda: d("%r vs %r" % (sorted(got), sorted(input_canons))))


def key_of(rt, rooted):
    if rooted:
        return repr(sorted(sorted(c) for c in rt.rooted_cluster_set()))
    return repr(sorted(sorted(sorted(s) for s in k) for k in rt.unrooted_split_set()))


# ---------------------------------------------------------------------------------------------------------
# Part A
# ---------------------------------------------------------------------------------------------------------
ROUTES = ["add_tree", "append", "insert", "add_trees", "read"]
OPS = ["update", "extend", "iadd", "add"]


@st.composite
def algebra_cases(draw, max_taxa, max_trees):
    s = draw(samples.samples(4, max_taxa, 1, max_trees, weights=True))
    k = len(s["trees"])
    P = draw(st.integers(1, 5))
    return {"sample": s, "P": P, "assign": [draw(st.integers(0, P - 1)) for _ in range(k)],
            "routes": [draw(st.sampled_from(ROUTES)) for _ in range(P)],
            "ins": draw(st.lists(st.integers(0, 10), min_size=1, max_size=6)),
            "order": list(draw(st.permutations(list(range(P))))),
            "ops": [draw(st.sampled_from(OPS)) for _ in range(P)], "nest": draw(st.booleans()),
            "explicit": draw(st.booleans()), "use_w": draw(st.booleans()), "master_first": draw(st.booleans()),
            "prequery": draw(st.booleans()), "from_empty": draw(st.booleans()),
            # the last `late` trees join no part: they are added to the merged collection one at a time afterwards
            "late": draw(st.sampled_from([0, 0, 1, 2])), "late_route": draw(st.sampled_from(["add_tree", "append", "insert"])),
            # some samples mix trees over different leaf sets of the one namespace (taxa dropped per tree)
            "drop": ([sorted(draw(st.sets(st.integers(0, s["n"] - 1), max_size=max(0, min(2, s["n"] - 4))))) for _ in range(k)]
                     if draw(st.integers(0, 3)) == 0 else None)}


def newick_of(rt, rooted_flag):
    tok = "" if rooted_flag is None else ("[&R] " if rooted_flag else "[&U] ")
    return tok + shapes.spec_to_newick(samples.spec_of(rt))


def check_algebra(ctx, case):
    import dendropy
    sample = case["sample"]
    rooted_flag = sample["rooted"]
    rooted = bool(rooted_flag)
    rts = samples.realise(sample)
    if case.get("drop"):
        for i, dr in enumerate(case["drop"]):
            if dr:
                keep = rts[i].leafset() - frozenset("T%d" % j for j in dr)
                w = rts[i].weight
                rts[i] = rts[i].restrict(keep, suppress=True)
                rts[i].length[rts[i].root] = None
                rts[i].weight = w
        if any(case["drop"]):
            ctx.cls("A:trees_over_different_leaf_sets")
    ns, taxa, bits = shapes.build_namespace(shapes.plain_history(sample["n"]))
    explicit = case["explicit"]
    kw = dict(taxon_namespace=ns, use_tree_weights=case["use_w"], is_rooted_trees=rooted_flag if explicit else None)

    def fresh(rt):
        t = shapes.build_tree(samples.spec_of(rt), ns, taxa, is_rooted=rooted_flag)
        if rt.weight is not None:
            t.weight = rt.weight
        return t

    R = dendropy.TreeArray(**kw)
    for rt in rts:
        R.add_tree(fresh(rt))
    P = case["P"]
    late = list(range(len(rts)))[len(rts) - min(case.get("late", 0), len(rts) - 1):] if case.get("late") else []
    members = [[i for i, p in enumerate(case["assign"]) if p == q and i not in late] for q in range(P)]
    parts = []
    for q in range(P):
        ta = dendropy.TreeArray(**kw)
        route = case["routes"][q]
        idxs = members[q]
        if route == "read" and any(rts[i].weight is not None for i in idxs):
            route = "add_tree"  # weights are not carried by the plain Newick text used here
        if route == "add_tree":
            for i in idxs:
                ctx.call("C06.build:add_tree", ta.add_tree, fresh(rts[i]))
        elif route == "append":
            for i in idxs:
                ctx.call("C06.build:append", ta.append, fresh(rts[i]))
        elif route == "insert":
            for j, i in enumerate(idxs):
                ctx.call("C06.build:insert", ta.insert, case["ins"][j % len(case["ins"])] % (len(ta) + 1), fresh(rts[i]))
        elif route == "add_trees":
            ctx.call("C06.build:add_trees", ta.add_trees, [fresh(rts[i]) for i in idxs])
        else:
            if idxs:
                text = "\n".join(newick_of(rts[i], rooted_flag) for i in idxs) + "\n"
                ctx.call("C06.build:read", ta.read, data=text, schema="newick")
        parts.append(ta)
    tag = lambda: "rooted=%r explicit=%r use_w=%r members=%r routes=%r order=%r ops=%r nest=%r trees=%s" % (
        rooted_flag, explicit, case["use_w"], members, case["routes"], case["order"], case["ops"], case["nest"], [rt.canon() for rt in rts])

    def merge(a, b, op):
        key = "C06.merge:" + op
        if case.get("prequery"):
            # summaries read BEFORE a merge must not be served again afterwards
            a.split_distribution.split_frequencies
            b.split_distribution.split_frequencies
            if len(a):
                a.consensus_tree()
            ctx.cls("A:queried_before_merge")
        if op == "update":
            ctx.call(key, a.update, b)
            return a
        if op == "extend":
            ctx.call(key, a.extend, b)
            return a
        if op == "iadd":
            def f():
                x = a
                x += b
                return x
            return ctx.call(key, f)
        return ctx.call(key, lambda: a + b)

    order = [parts[q] for q in case["order"]]
    sizes = [len(members[q]) for q in case["order"]]
    from_empty = bool(case.get("from_empty"))
    if from_empty:
        # the parts are only ever ARGUMENTS of a merge (a fresh empty accumulator receives them), so they must come
        # out unchanged and can be merged a second time, in another order, into a second accumulator
        order = [dendropy.TreeArray(**kw)] + order
        sizes = [0] + sizes
        ctx.cls("A:merged_into_fresh_empty_accumulator")
    if case["nest"] and len(order) >= 3 and not from_empty:
        last = merge(order[-2], order[-1], case["ops"][-1])
        order = order[:-2] + [last]
    acc = order[0]
    for j, nxt in enumerate(order[1:]):
        acc = merge(acc, nxt, case["ops"][j % len(case["ops"])])
    for i in late:
        # growth after the merges: the merged collection is a collection like any other
        lr = case.get("late_route", "add_tree")
        if lr == "add_tree":
            ctx.call("C06.add_after_merge:add_tree", acc.add_tree, fresh(rts[i]))
        elif lr == "append":
            ctx.call("C06.add_after_merge:append", acc.append, fresh(rts[i]))
        else:
            ctx.call("C06.add_after_merge:insert", acc.insert, case["ins"][0] % (len(acc) + 1), fresh(rts[i]))
    if late:
        ctx.cls("A:trees_added_after_merge")
    empties_after_nonempty = any(sizes[j] == 0 and any(sizes[:j]) for j in range(len(sizes)))
    nonorig = [q for q in case["order"] if members[q]]
    if empties_after_nonempty:
        ctx.cls("A:empty_part_after_nonempty")
    if 0 in sizes:
        ctx.cls("A:has_empty_part")
    # (restore_tree re-creates a tree over the whole namespace: the absolute clause "restored topologies are the input
    # topologies" is asserted for samples over the full leaf set; mixed-leaf-set samples are compared with the serially
    # built collection only)
    hetero = bool(case.get("drop")) and any(case["drop"])
    canons = None if hetero else [key_of(rt, rooted) for rt in rts]
    compare_arrays(ctx, acc, R, len(rts), tag, canons, rooted)
    if from_empty:
        acc2 = dendropy.TreeArray(**kw)
        for nxt in reversed(order[1:]):
            acc2 = merge(acc2, nxt, "update")
        for i in late:
            ctx.call("C06.add_after_merge:add_tree", acc2.add_tree, fresh(rts[i]))
        compare_arrays(ctx, acc2, R, len(rts), lambda: "SECOND merge of the same parts in reversed order; " + tag(), canons, rooted)
        # and the first accumulator is not disturbed by the second round either
        compare_arrays(ctx, acc, R, len(rts), lambda: "first accumulator re-checked after the second merge; " + tag(), None, rooted)
    if empties_after_nonempty or (len(nonorig) >= 2 and nonorig != sorted(nonorig)):
        ctx.nontrivial(["A", sample, case["assign"], case["routes"], case["order"], case["ops"], case["nest"], explicit])
    ctx.sample("algebra", {"trees": [rt.canon() for rt in rts], "members": members, "routes": case["routes"], "order": case["order"],
                           "ops": case["ops"], "explicit_rooting": explicit, "rooted": rooted_flag})


# ---------------------------------------------------------------------------------------------------------
# Part B: harness-owned scheduler around the real SumTrees code
# ---------------------------------------------------------------------------------------------------------
class FakeLock(object):
    def acquire(self, *a, **k):
        return True

    def release(self):
        pass


class Scheduler(object):
    """Stands in for sumtrees.multiprocessing during one parallel_analyze_trees call."""

    def __init__(self, assignment, arrival, giveup=()):
        self.assignment = assignment      # file index -> worker index
        self.arrival = arrival            # permutation of worker indices
        self.giveup = set(giveup)         # workers whose first NON-BLOCKING poll finds the queue (still) empty: items put
        self.polled = set()               # on a multiprocessing.Queue travel through a feeder thread and a pipe, so
        self.sentinels = 0                # get_nowait() may legitimately raise Empty although items were put
        self.workers = []
        self.files = []
        self.results = {}
        self.queues = 0
        self.current = None
        self.ran = False
        self.released = 0
        sched = self

        class WorkQueue(object):
            def put(self, f):
                if f is None:
                    sched.sentinels += 1   # end-of-work marker
                else:
                    sched.files.append(f)

            def _next(self):
                k = sched.current
                for idx, f in enumerate(sched.files):
                    if f is not None and sched.assignment[idx] == k:
                        sched.files[idx] = None
                        return f
                return None

            def get_nowait(self):
                k = sched.current
                if k in sched.giveup and k not in sched.polled:
                    sched.polled.add(k)
                    raise _queue.Empty()
                sched.polled.add(k)
                f = self._next()
                if f is None:
                    raise _queue.Empty()
                return f

            def get(self, block=True, timeout=None):
                if not block:
                    return self.get_nowait()
                f = self._next()
                if f is not None:
                    return f
                if sched.sentinels > 0:
                    sched.sentinels -= 1
                    return None
                if timeout is not None:
                    raise _queue.Empty()
                raise runner.HarnessError("a worker would block forever on the work queue (no task, no end-of-work marker)")

        class ResultsQueue(object):
            def put(self, r):
                sched.results.setdefault(sched.current, []).append(r)

            def get(self, *a, **k):
                if not sched.ran:
                    sched.ran = True
                    for k, w in enumerate(sched.workers):
                        sched.current = k
                        w.run()
                    sched.pending = []
                    for k in sched.arrival:
                        sched.pending.extend(sched.results.get(k, []))
                if not sched.pending:
                    raise runner.HarnessError("results queue empty: a worker produced no result")
                return sched.pending.pop(0)

        self.WorkQueue, self.ResultsQueue = WorkQueue, ResultsQueue

    # API used by sumtrees
    def Queue(self, *a, **k):
        self.queues += 1
        return self.WorkQueue() if self.queues == 1 else self.ResultsQueue()

    def Lock(self):
        return FakeLock()

    @property
    def Process(self):
        import multiprocessing
        return multiprocessing.Process


def run_parallel(ctx, tp, files, ns, nworkers, assignment, arrival, giveup=(), tree_offset=0, preserve_underscores=False):
    from dendropy.application import sumtrees
    sched = Scheduler(assignment, arrival, giveup)
    for name in ("TreeAnalysisWorker", "TreeProcessor", "multiprocessing"):
        if not hasattr(sumtrees, name):
            raise runner.HarnessError("sumtrees.%s not found (trusted-base name changed)" % name)
    saved = (sumtrees.multiprocessing, sumtrees.TreeAnalysisWorker.start, sumtrees.TreeAnalysisWorker.terminate)
    sumtrees.multiprocessing = sched
    sumtrees.TreeAnalysisWorker.start = lambda self: sched.workers.append(self)
    sumtrees.TreeAnalysisWorker.terminate = lambda self: None
    try:
        tp.num_processes = nworkers
        # through the public dispatcher (analyze_trees chooses the parallel branch for num_processes > 1, the serial one
        # otherwise - then the scheduler stays unused)
        return tp.analyze_trees(tree_sources=files, schema="newick", taxon_namespace=ns, tree_offset=tree_offset,
                                preserve_underscores=preserve_underscores)
    finally:
        sumtrees.multiprocessing, sumtrees.TreeAnalysisWorker.start, sumtrees.TreeAnalysisWorker.terminate = saved


MODES = ["implicit_tokens", "implicit_plain", "force_rooted", "force_unrooted"]


@st.composite
def sched_cases(draw, max_files, max_workers_extra):
    ages = draw(st.integers(0, 3)) == 0
    s = draw(samples.samples(4, 6, 2, 6, weights=False, ultrametric=ages))
    k = len(s["trees"])
    F = draw(st.integers(1, min(max_files, k)))
    cuts = sorted(draw(st.lists(st.integers(1, k - 1), min_size=F - 1, max_size=F - 1, unique=True))) if F > 1 else []
    W = draw(st.integers(1, F + max_workers_extra))
    return {"sample": s, "cuts": cuts, "W": W, "assignment": [draw(st.integers(0, W - 1)) for _ in range(F)],
            "arrival": list(draw(st.permutations(list(range(W))))), "mode": draw(st.sampled_from(MODES)),
            "rooted_tokens": draw(st.booleans()), "giveup": sorted(draw(st.sets(st.integers(0, W - 1), max_size=W))),
            # burn-in: the first `burnin` trees of EVERY file are skipped, however the files are distributed
            "burnin": draw(st.sampled_from([0, 0, 1, 2])),
            # node-age summarisation on ultrametric samples, under a drawn ultrametricity tolerance; with a relaxed
            # tolerance one tip is off by a little less than it
            "ages": ages, "prec": draw(st.sampled_from([1e-5, 1e-5, 0.01, 0.5])), "perturb": draw(st.booleans()),
            # labels with underscores, read with preserve_underscores on or off (the option of both runs alike)
            "underscore_labels": draw(st.booleans()), "pu": draw(st.booleans())}


def check_schedule(ctx, case):
    import dendropy
    from dendropy.application import sumtrees
    sample = dict(case["sample"])
    mode = case["mode"]
    token_rooted = case["rooted_tokens"]
    if mode == "implicit_tokens":
        flag, is_src_rooted = token_rooted, None
    elif mode == "implicit_plain":
        flag, is_src_rooted = None, None
    elif mode == "force_rooted":
        flag, is_src_rooted = (None if not token_rooted else True), True
    else:
        flag, is_src_rooted = (None if not token_rooted else False), False
    sample["rooted"] = flag
    rts = samples.realise(sample)
    ages = bool(case.get("ages")) and bool(sample.get("ultrametric"))
    prec = case.get("prec", 1e-5) if ages else 1e-5
    if ages:
        ctx.cls("B:node_ages_summarised:prec=%g" % prec)
        if case.get("perturb") and prec > 1e-4:
            for rt in rts:
                lf = rt.leaves()[0]
                rt.length[lf] += prec / 8.0
            ctx.cls("B:tips_off_by_less_than_the_tolerance")
    cuts = [0] + list(case["cuts"]) + [len(rts)]
    groups = [list(range(cuts[i], cuts[i + 1])) for i in range(len(cuts) - 1)]
    W = case["W"]
    us, pu = bool(case.get("underscore_labels")), bool(case.get("pu"))
    if us:
        ctx.cls("B:underscore_labels:preserve_underscores=%r" % pu)
    tmp = tempfile.mkdtemp(prefix="c06_")
    try:
        files = []
        for g, idxs in enumerate(groups):
            p = os.path.join(tmp, "f%d.nwk" % g)
            with open(p, "w") as f:
                for i in idxs:
                    line = newick_of(rts[i], flag)
                    if us:
                        line = line.replace("T", "T_")
                    f.write(line + "\n")
            files.append(p)
        labels = [("T_%d" if (us and pu) else ("T %d" if us else "T%d")) % i for i in range(sample["n"])]
        mk = lambda: sumtrees.TreeProcessor(is_source_trees_rooted=is_src_rooted, ignore_edge_lengths=False, ignore_node_ages=not ages,
                                            use_tree_weights=True, ultrametricity_precision=prec, taxon_label_age_map=None,
                                            num_processes=1, log_frequency=0, messenger=None, debug_mode=True)
        ns1 = dendropy.TaxonNamespace(labels)
        burnin = case.get("burnin", 0)
        kept = [i for idxs in groups for i in idxs[burnin:]]
        if not kept:
            burnin = 0
            kept = list(range(len(rts)))
        if burnin:
            ctx.cls("B:burnin=%d" % burnin)
        R = mk().serial_analyze_trees(tree_sources=files, schema="newick", taxon_namespace=ns1, tree_offset=burnin, preserve_underscores=pu)
        ns2 = dendropy.TaxonNamespace(labels)
        tag = lambda: "burnin=%d " % burnin + "mode=%s tokens_rooted=%r files=%r workers=%d assignment=%r arrival=%r early_empty_poll=%r trees=%s" % (
            mode, token_rooted, groups, W, case["assignment"], case["arrival"], case.get("giveup", []), [rt.canon() for rt in rts])
        try:
            M = run_parallel(ctx, mk(), files, ns2, W, case["assignment"], case["arrival"], case.get("giveup", ()), tree_offset=burnin, preserve_underscores=pu)
        except runner.HarnessError:
            raise
        except Exception as e:
            if runner.exc_in_dendropy(e):
                best, _ = runner.innermost_dendropy_frame(e)
                ctx.fail("parallel_run_never_fails", "C06.schedule:%s@%s" % (type(e).__name__, best[0]), "%s: %s; %s" % (type(e).__name__, e, tag()))
                raise runner.KnownSkip()
            raise
        eff_rooted = bool(is_src_rooted) if is_src_rooted is not None else bool(flag)
        relabel = (lambda x: x.replace("T", "T_" if pu else "T ")) if us else (lambda x: x)
        compare_arrays(ctx, M, R, len(kept), tag, [relabel(key_of(rts[i], eff_rooted)) for i in kept], eff_rooted)
        ctx.check(sorted(t.label for t in ns2) == sorted(labels), "namespace_labels_as_declared", "C06.schedule_labels",
                  lambda: "labels %r; %s" % (sorted(t.label for t in ns2), tag()))
    finally:
        shutil.rmtree(tmp, ignore_errors=True)
    busy = set(case["assignment"])
    idle = [w for w in range(W) if w not in busy]
    pos = dict((w, i) for i, w in enumerate(case["arrival"]))
    idle_after_busy = any(pos[i] > pos[b] for i in idle for b in busy)
    if idle:
        ctx.cls("B:has_idle_worker")
    if idle_after_busy:
        ctx.cls("B:idle_result_after_nonempty_result")
    if case.get("giveup"):
        ctx.cls("B:worker_whose_first_nonblocking_poll_is_empty")
    ctx.cls("B:mode:" + mode)
    if idle_after_busy or (len(busy) >= 2 and [w for w in case["arrival"] if w in busy] != sorted(busy)):
        ctx.nontrivial(["B", case["sample"], case["cuts"], W, case["assignment"], case["arrival"], mode, token_rooted])
    ctx.sample("schedule:" + mode, {"files": [[rts[i].canon() for i in g] for g in groups], "workers": W,
                                    "assignment": case["assignment"], "arrival": case["arrival"], "mode": mode, "tokens_rooted": token_rooted})


FIXED_SAMPLE = {"n": 5, "base": {"t": None, "lab": None, "len": None, "ch": [
    {"t": None, "lab": None, "len": None, "ch": [{"t": 0, "lab": None, "len": None, "ch": []}, {"t": 1, "lab": None, "len": None, "ch": []}]},
    {"t": None, "lab": None, "len": None, "ch": [{"t": 2, "lab": None, "len": None, "ch": []},
                                                 {"t": None, "lab": None, "len": None, "ch": [{"t": 3, "lab": None, "len": None, "ch": []}, {"t": 4, "lab": None, "len": None, "ch": []}]}]}]},
    "trees": [{"kind": "same", "nni": [], "spec": None, "lens": [1, 2, 3], "hts": [1], "w": None},
              {"kind": "nni", "nni": [[0, 0, 0]], "spec": None, "lens": [2, 3, 5], "hts": [1], "w": None},
              {"kind": "nni", "nni": [[1, 1, 0]], "spec": None, "lens": [4, 1, 1], "hts": [1], "w": None},
              {"kind": "same", "nni": [], "spec": None, "lens": [3, 3, 2], "hts": [1], "w": None}],
    "rooted": None, "ultrametric": False, "shared_lens": False, "lenmul": 1.0}


def exhaustive_items(tier):
    items = []
    combos = [(2, (1, 2, 3))] if tier == "quick" else [(2, (1, 2, 3, 4)), (3, (1, 2, 3))]
    for F, Ws in combos:
        cuts = [2] if F == 2 else [1, 2]
        for W in Ws:
            for assignment in itertools.product(range(W), repeat=F):
                for arrival in itertools.permutations(range(W)):
                    for mode in MODES:
                        for tok in ((True, False) if mode == "implicit_tokens" else (True,)):
                            gsets = [()] if mode != "implicit_tokens" else [g for r in range(W + 1) for g in itertools.combinations(range(W), r)]
                            for giveup in gsets:
                                items.append({"sample": FIXED_SAMPLE, "cuts": cuts, "W": W, "assignment": list(assignment),
                                              "arrival": list(arrival), "mode": mode, "rooted_tokens": tok, "giveup": list(giveup)})
    return items


# ---------------------------------------------------------------------------------------------------------
# Part C (thorough only): the real command line with real processes - scheduler dependent, can only add true positives
# ---------------------------------------------------------------------------------------------------------
def check_cli(ctx, case):
    import subprocess
    import sys
    import dendropy
    sample = dict(case["sample"])
    sample["rooted"] = True
    rts = samples.realise(sample)
    tmp = tempfile.mkdtemp(prefix="c06cli_")
    try:
        files = []
        per = max(1, len(rts) // case["F"])
        for g in range(case["F"]):
            idxs = list(range(g * per, len(rts) if g == case["F"] - 1 else (g + 1) * per))
            p = os.path.join(tmp, "f%d.nwk" % g)
            with open(p, "w") as f:
                for i in idxs:
                    f.write(newick_of(rts[i], True) + "\n")
            files.append(p)
        outs = []
        env = dict(os.environ)
        env["PYTHONPATH"] = runner.REPO_SRC + os.pathsep + env.get("PYTHONPATH", "")
        for label, extra in (("serial", []), ("parallel", ["-m", str(case["procs"])])):
            out = os.path.join(tmp, label + ".tre")
            cmd = [sys.executable, "-m", "dendropy.application.sumtrees", "-q", "-F", "newick", "-o", out, "--replace"] + extra + files
            p = subprocess.run(cmd, env=env, stdout=subprocess.PIPE, stderr=subprocess.STDOUT, text=True, timeout=300)
            if p.returncode != 0 or not os.path.exists(out):
                ctx.fail("sumtrees_cli_runs", "C06.cli_failed:" + label, "rc=%s output=%s" % (p.returncode, p.stdout[-1500:]))
                raise runner.KnownSkip()
            t = dendropy.Tree.get(path=out, schema="newick", rooting="force-rooted")
            rt, problems = snapshot(t)
            cl = rt.clusters()
            outs.append((rt.canon(), sorted((sorted(cl[i]), rt.label[i]) for i in rt.internals())))
        ctx.check(outs[0] == outs[1], "cli_parallel_equals_serial", "C06.cli_differs", lambda: "%r vs %r (procs=%d files=%d)" % (outs[0], outs[1], case["procs"], case["F"]))
        ctx.nontrivial(["cli", case["procs"], case["F"], [rt.canon() for rt in rts]])
        ctx.cls("C:cli_runs")
    finally:
        shutil.rmtree(tmp, ignore_errors=True)


SUBCHECKS = {"algebra": check_algebra, "schedule_random": check_schedule, "schedule_exhaustive": check_schedule, "cli": check_cli}


def run(ctx):
    quick = ctx.tier == "quick"
    n = ctx.nshards
    runner.run_given(ctx, "algebra", algebra_cases(6 if quick else 9, 6 if quick else 16), check_algebra, (2400 if quick else 20000) // n)
    runner.run_items(ctx, "schedule_exhaustive", exhaustive_items(ctx.tier), check_schedule)
    runner.run_given(ctx, "schedule_random", sched_cases(3 if quick else 4, 2), check_schedule, (800 if quick else 6000) // n)
    if not quick:
        items = [{"sample": FIXED_SAMPLE, "F": F, "procs": p} for F in (1, 2, 3) for p in (2, 3, 5, 8) for _ in range(2)]
        runner.run_items(ctx, "cli", items, check_cli)
