"""C13 - all ways of reading the same source deliver the same data.

Oracle = DIFFERENTIAL between reading routes of one document under one set of reader options.  Every tree a route
delivers is turned into a full observation through lib/snapshot.py (raw links only): ordered structure, taxon labels,
node labels, edge lengths (value and type), node / edge comments and annotations, edge labels, and the tree's name,
rooting state, weight, comments and annotations.  The base observation is TreeList.get(data=text); it must equal

  * TreeList.get from a StringIO, an open file and a path;
  * the concatenation over ALL (collection_offset i, tree_offset j) of Tree.get(collection_offset=i, tree_offset=j),
    Tree.get() without offsets = the first tree (documented), TreeList.get(collection_offset=i) = collection i,
    TreeList.get(collection_offset=i, tree_offset=j) = its tail from j (all i, j), negative offsets = Python list
    indices (documented), IndexError beyond the last collection / tree (documented);
  * TreeList().read(...) (returns the number of trees) and a second read() into the same list: equal trees appended on
    the SAME Taxon objects, namespace not grown; read(collection_offset, tree_offset) appends the documented tail;
  * Tree.yield_from_files([src, src]) = the list twice, second half on the same Taxon objects;
  * the trees of DataSet.get / DataSet().read (tree_lists in order; collection sizes = the document's TREES blocks);
  * TreeArray.read / read_from_files compared (splits as taxon-label sets, edge lengths, weights, leaf sets, rooting)
    against TreeArray.add_tree of the listed trees; when add_tree of the listed trees raises (mixed rooting ...) the
    read route must raise the same exception class;
  * <Type>CharacterMatrix.get(matrix_offset=k) = k-th matrix of DataSet.get (label, type, row labels in order, cells
    by symbol / value, character subsets).
In "shared" mode one TaxonNamespace is passed to every call and every delivered Taxon object must be identical (is)
to the one the first call delivered at the same position, and must be a member of that namespace.
If the base route refuses the document (options can make a valid document unreadable: duplicate internal taxa, too
many taxa ...) the case is outside the domain; then DataSet.get and the iterator must refuse it too.
Extra oracle (lib/docs content, when the options do not change what the text denotes): topology, labels, lengths,
tree names, rooting per the documented meaning of `rooting`, weights per `store_tree_weights`."""
import io
import os
import shutil
import tempfile
import warnings

from hypothesis import strategies as st

from lib import c13_docs, docs, runner, shapes
from lib.snapshot import snapshot

CONFIG = {
    "shards": {"quick": 8, "thorough": 16},
    "budget_s": {"quick": 120, "thorough": 1500},
    "rule": ("Documents: (docs) lib/docs.py Newick (1-4 statements) and NEXUS (0-3 TREES blocks of 1-3 trees, TRANSLATE / "
             "numbers / labels, TAXA present or absent, 0-2 CHARACTERS/DATA blocks, SETS, TITLE/LINK, comments, [&R]/[&U] "
             "mixes); (rich) lib/c13_docs.py Newick and NEXUS with [&W a/b] weights, metadata and plain comments in any "
             "order before the tree and between TREE / name / '=', block-opening comments, re-cased labels; (nexml) "
             "1-3 tree lists of 1-3 trees + 0-2 matrices written by DendroPy's NeXML writer from generated data; (numeric) "
             "Newick with INTEGER leaf labels (1..n or sparse, in drawn order; labels, never positions, in Newick) read "
             "into namespaces that are empty or already hold other names / scrambled integers (one shared, or an "
             "equally pre-populated one per call); (multi) 2-3 different sources of one schema in one call - hand-written "
             "NeXML files over one label set that reuse the otus / otu ids (tax1, t1..tn) with a permuted id -> label "
             "assignment, Newick documents, NEXUS documents over one label pool with and without TAXA blocks - or the same source listed twice, as unnamed streams / "
             "open files / paths / one path twice, with tree_offset 0-2 and all TreeArray configurations, through "
             "Tree.yield_from_files, TreeArray.read_from_files, TreeArray.read x n, TreeList.read x n.  x "
             "reader options accepted by every route of the schema (rooting, preserve_underscores, store_tree_weights, "
             "extract_comment_metadata, suppress_internal_node_taxa, suppress_leaf_node_taxa, "
             "case_sensitive_taxon_labels, suppress_edge_lengths, is_assign_internal_labels_to_edges; NeXML: "
             "case_sensitive_taxon_labels) x source kind per route (data=, file=StringIO, file=open file, path=) x "
             "namespace mode (fresh per call / one shared).  Exhaustive inside every case: every (collection, tree) "
             "offset of the document through Tree.get and TreeList.get.  Non-trivial = readable document with >= 2 trees "
             "and at least one of {TRANSLATE, comment, >= 2 collections, weight token (NeXML: annotation)}; distinct = "
             "(document text, options, mode)."),
    "exhaustive_note": {"quick": "every (collection_offset, tree_offset) of every generated document (Tree.get and TreeList.get)",
                        "thorough": "every (collection_offset, tree_offset) of every generated document (Tree.get and TreeList.get)"},
    "assumptions": [
        "TreeList.get without collection_offset delivers the trees of ALL collections (documented in "
        "TreeList._parse_and_create_from_stream and relied upon by the library's tests), Tree.get without offsets the "
        "first tree of the first collection",
        "comments in front of the first TREE statement of a block belong to the TreeList (reader) and are dropped by "
        "the iterator: collection-level comments are not compared",
        "TreeArray routes are compared with TreeArray.add_tree of the listed trees (same summarising code), so only the "
        "reading part is decided",
        "out-of-range offsets: only the IndexError documented for TreeList.get/read is asserted (Tree.get's docstring "
        "is contradictory there)",
        "NeXML documents come from DendroPy's own writer (document source only); labels there are alphanumeric with "
        "blanks, '.', '_' and '-'; matrices are written with markup_as_sequences=True",
        "options that turn tree labels into additional taxa (suppress_internal_node_taxa=False; case-sensitive reading "
        "of re-cased labels) are not combined with documents that hold CHARACTERS/DATA blocks (only the routes parsing "
        "the matrix can notice that NTAX no longer fits); re-cased labels are not written into documents with matrices",
        "every generated document is valid, so a document TreeList.get reads must also be read by DataSet.get / "
        "DataSet.read (which additionally parse CHARACTERS/DATA/SETS blocks) and by CharacterMatrix.get",
        "while the library under test still tokenizes \"[c]'a b'\" as the unquoted token \"'a\" (C20's finding, probed "
        "once per process), documents with a comment directly in front of a quoted token are skipped (class "
        "skipped:comment_glued_to_quoted_token(C20)); with C20's repair merged nothing is skipped",
        "(multi) several sources in one call are compared with reading the same sources one after the other; NEXUS "
        "sources come with and without TAXA blocks, mixed.  The defect 'the one reader object of the NEXUS iterator keeps "
        "the NTAX of an earlier source's TAXA block and refuses the new taxa of a later source without one' has the key "
        "C13.multi:nexus_iterator_keeps_ntax_of_earlier_source of its own (repaired by the fix: commit on branch wt_c13)",
        "two reads of one text within one process (fresh namespace, a few hundred unrelated Annotation objects allocated "
        "and released in another order in between) must give identical, order-sensitive observations",
        "documents holding a quoted token that is one structural character (';' ',' ')' ... as taxon or internal label; "
        "lib/docs.py writes them) are skipped: the readers compare token text without consulting is_token_quoted (listed "
        "C02/C09 known finding), so what the document denotes depends on which blocks a route parses",
        "non-finite floats (weights '[&W 1e400/1]', 'nan') are compared as text",
        "matrix rows are compared by taxon label (iteration order follows the namespace, which the data set route may "
        "have filled from an earlier TREES block)",
        "a document + options combination that TreeList.get(data=) refuses is outside the domain; DataSet.get and the "
        "iterator must then refuse it as well",
    ],
}

TOTALS = {"quick": {"docs": 1000, "rich": 1000, "nexml": 320, "numeric": 400, "multi": 480},
          "thorough": {"docs": 30000, "rich": 30000, "nexml": 8000, "numeric": 8000, "multi": 10000}}

KINDS = ("data", "strio", "file", "path")
MATRIX_CLASS = {"dna": "DnaCharacterMatrix", "rna": "RnaCharacterMatrix", "protein": "ProteinCharacterMatrix",
                "standard": "StandardCharacterMatrix", "continuous": "ContinuousCharacterMatrix"}


# ---------------------------------------------------------------------------
# strategies
# ---------------------------------------------------------------------------

@st.composite
def newick_options(draw):
    o = {}
    r = draw(st.sampled_from([None, None, "default-unrooted", "default-rooted", "force-unrooted", "force-rooted",
                              "force-rooted"]))
    if r is not None:
        o["rooting"] = r
    for name, p in (("preserve_underscores", 3), ("store_tree_weights", 2), ("extract_comment_metadata", 3),
                    ("case_sensitive_taxon_labels", 4), ("suppress_edge_lengths", 8), ("suppress_leaf_node_taxa", 8)):
        if draw(st.integers(0, p - 1)) == 0:
            o[name] = draw(st.booleans())
    k = draw(st.integers(0, 11))
    if k == 0:
        o["suppress_internal_node_taxa"] = False
    elif k == 1:
        o["suppress_internal_node_taxa"] = True
    elif k == 2:
        o["is_assign_internal_labels_to_edges"] = True
    return o


def fit_options(doc, opts):
    """Options that make tree labels into additional taxa (internal node taxa; case-sensitive reading of re-cased
    labels) are not combined with documents holding CHARACTERS/DATA blocks: the taxa of the trees then no longer are
    the NTAX taxa the matrix declares, which only the routes that parse the matrix (DataSet.get, CharacterMatrix.get)
    can notice - a legitimate difference between routes, outside the property."""
    has_matrix = "MATRIX" in doc["text"].upper() if doc.get("content") is None else bool(doc["content"]["matrices"])
    if has_matrix:
        if opts.get("suppress_internal_node_taxa") is False:
            del opts["suppress_internal_node_taxa"]
        if opts.get("case_sensitive_taxon_labels") and doc.get("features", {}).get("recased"):
            del opts["case_sensitive_taxon_labels"]
    return opts


@st.composite
def nexml_options(draw):
    k = draw(st.integers(0, 2))
    return {} if k == 0 else {"case_sensitive_taxon_labels": k == 1}


@st.composite
def plans(draw):
    return {"shared": draw(st.booleans()),
            "kinds": dict((r, draw(st.sampled_from(KINDS))) for r in ("tree", "list_off", "read", "read2", "dataset",
                                                                      "dsread", "array", "matrix")),
            "ykinds": [draw(st.sampled_from(KINDS[1:])), draw(st.sampled_from(KINDS[1:]))],
            "array_api": draw(st.sampled_from(["read", "read", "read_from_files"])),
            # how the TreeArray is configured (constructor arguments): all combinations
            "array_cfg": {"ignore_edge_lengths": draw(st.booleans()), "ignore_node_ages": draw(st.booleans()),
                          "use_tree_weights": draw(st.sampled_from([True, True, False])),
                          "check_ultrametricity": draw(st.booleans())},
            "pick": draw(st.integers(0, 1000))}


@st.composite
def doc_cases(draw, large=False):
    k = 2 if large else 1
    # plan and options first: a long document may use up Hypothesis' entropy, later draws then fall back to minimal values
    plan = draw(plans())
    opts = draw(newick_options())
    doc = draw(st.one_of(docs.newick_docs(max_taxa=6, max_trees=4 * k),
                         docs.nexus_docs(max_taxa=5, max_chars=6 * k, max_trees=3, max_tree_blocks=3),
                         docs.nexus_docs(max_taxa=5, max_chars=6 * k, max_trees=3, max_tree_blocks=3)))
    return {"doc": doc, "opts": fit_options(doc, opts), "plan": plan}


@st.composite
def rich_cases(draw, large=False):
    k = 2 if large else 1
    plan = draw(plans())
    opts = draw(newick_options())
    want_weights = draw(st.booleans())
    recase = draw(st.integers(0, 3)) == 0
    doc = draw(st.one_of(c13_docs.ultrametric_newick_docs(max_taxa=6, max_trees=4 * k, nexus=recase),
                         c13_docs.rich_newick_docs(max_taxa=6, max_trees=4 * k, recase=recase),
                         c13_docs.rich_nexus_docs(max_taxa=5, max_trees=3, max_blocks=3, max_chars=6, recase=recase),
                         c13_docs.rich_nexus_docs(max_taxa=5, max_trees=3, max_blocks=3, max_chars=6, recase=recase)))
    if doc["features"]["weight"] and want_weights:
        opts["store_tree_weights"] = True
    if doc["features"].get("linked") and want_weights and not doc["features"].get("recased"):
        # titled TAXA block + LINK TAXA: every route has to create its namespace(s) WITH the block's title, also the
        # case-sensitive ones
        opts["case_sensitive_taxon_labels"] = True
    return {"doc": doc, "opts": fit_options(doc, opts), "plan": plan}


@st.composite
def numeric_cases(draw, large=False):
    plan = draw(plans())
    plan["prior"] = draw(c13_docs.prior_labels())
    opts = draw(newick_options())
    doc = draw(c13_docs.numeric_newick_docs(max_taxa=6, max_trees=4 if not large else 8))
    return {"doc": doc, "opts": opts, "plan": plan}


@st.composite
def nexml_cases(draw, large=False):
    plan = draw(plans())
    opts = draw(nexml_options())
    return {"doc": draw(c13_docs.nexml_recipes(max_taxa=5 if not large else 8)), "opts": opts, "plan": plan}


# ---------------------------------------------------------------------------
# sources
# ---------------------------------------------------------------------------

class Sources(object):
    """The same text as data=, file=StringIO, file=<open file>, path=<temp file>."""

    def __init__(self, text):
        self.text = text
        self.dir = None
        self._path = None
        self.opened = []

    def path(self):
        if self._path is None:
            self.dir = tempfile.mkdtemp(prefix="c13_")
            self._path = os.path.join(self.dir, "doc.txt")
            with open(self._path, "w", newline="", encoding="utf-8") as f:
                f.write(self.text)
        return self._path

    def kw(self, kind):
        if kind == "data":
            return {"data": self.text}
        if kind == "strio":
            return {"file": io.StringIO(self.text)}
        if kind == "file":
            f = open(self.path(), "r")
            self.opened.append(f)
            return {"file": f}
        return {"path": self.path()}

    def item(self, kind):
        if kind == "strio" or kind == "data":
            return io.StringIO(self.text)
        if kind == "file":
            f = open(self.path(), "r")
            self.opened.append(f)
            return f
        return self.path()

    def close(self):
        for f in self.opened:
            try:
                f.close()
            except Exception:
                pass
        if self.dir is not None:
            shutil.rmtree(self.dir, ignore_errors=True)


# ---------------------------------------------------------------------------
# observations
# ---------------------------------------------------------------------------

def fnorm(v):
    """floats that are not finite (weights '[&W 1e400/1]', 'nan') as text: nan != nan would make equal observations differ"""
    if isinstance(v, float) and (v != v or v in (float("inf"), float("-inf"))):
        return "float:%r" % v
    return v


STRUCTURAL_LABEL = None


def has_structural_label(text):
    """A quoted token that is ONE structural character (';' ',' '(' ...; lib/docs.py writes them as taxon and internal
    labels): the readers compare token text without asking whether it was quoted - the listed C02 / C09 known finding
    (e.g. C09.nexus_label_semicolon: such a row label ends MATRIX early).  What such a document denotes then depends on
    which blocks a route parses, so it is outside C13's domain until that finding is repaired."""
    global STRUCTURAL_LABEL
    if STRUCTURAL_LABEL is None:
        import re
        STRUCTURAL_LABEL = re.compile(r"""(?<![A-Za-z0-9'])'(?:[(),:;\[\]={}\\]|'')'(?![A-Za-z0-9'])""")
    return STRUCTURAL_LABEL.search(text) is not None


def jsonable(v):
    if isinstance(v, float):
        return fnorm(v)
    if v is None or isinstance(v, (str, int, float, bool)):
        return v
    if isinstance(v, (list, tuple)):
        return [jsonable(x) for x in v]
    if isinstance(v, dict):
        return sorted([str(k), jsonable(x)] for k, x in v.items())
    return "<%s>" % type(v).__name__


def anns(obj):
    a = getattr(obj, "_annotations", None)
    if not a:
        return []
    return [[x.name, jsonable(x.value), x.name_prefix, x.datatype_hint] for x in a]


def observe_tree(tree):
    """(observation, [Taxon or None per node in preorder], problems)"""
    rt, problems = snapshot(tree, taxon_key=lambda t: t)
    if problems:
        return None, None, problems
    nodes, taxa = [], []
    for i in rt.preorder():
        nd = rt.obj[i]
        e = nd._edge
        tx = rt.taxon[i]
        L = e.length
        nodes.append([len(rt.children[i]), None if tx is None else tx.label, nd.label, fnorm(L), type(L).__name__,
                      list(nd.comments), anns(nd), e.label, anns(e), list(getattr(e, "comments", []))])
        taxa.append(tx)
    head = [tree.label, tree._is_rooted, fnorm(tree.weight), list(tree.comments), anns(tree)]
    return {"head": head, "nodes": nodes}, taxa, []


class Obs(object):
    """Observation of a sequence of trees."""

    def __init__(self, ctx, trees, route):
        import dendropy
        self.trees = []
        self.taxa = []
        self.objs = list(trees)
        for k, t in enumerate(self.objs):
            if not isinstance(t, dendropy.Tree):
                ctx.fail("route_delivers_trees", "C13.not_a_tree:%s" % route, "%s delivered %r at position %d" % (route, t, k))
                raise runner.KnownSkip()
            o, taxa, problems = observe_tree(t)
            if problems:
                ctx.fail("delivered_tree_wellformed", "C13.malformed_tree:%s" % route, "%s tree %d: %r" % (route, k, problems))
                raise runner.KnownSkip()
            self.trees.append(o)
            self.taxa.append(taxa)


def first_diff(a, b, path=""):
    if type(a) != type(b):
        return "%s: %r vs %r" % (path, a, b)
    if isinstance(a, dict):
        for k in sorted(set(a) | set(b)):
            if a.get(k) != b.get(k):
                return first_diff(a.get(k), b.get(k), path + "/" + str(k))
    if isinstance(a, list):
        if len(a) != len(b):
            return "%s: length %d vs %d (%r vs %r)" % (path, len(a), len(b), a[:4], b[:4])
        for k, (x, y) in enumerate(zip(a, b)):
            if x != y:
                return first_diff(x, y, path + "[%d]" % k)
    return "%s: %r vs %r" % (path, a, b)


class Run(object):
    """One case: context, document, decoded options, sources."""

    def __init__(self, ctx, case, text, schema, opts):
        self.ctx = ctx
        self.case = case
        self.text = text
        self.schema = schema
        self.opts = opts
        self.plan = case["plan"]
        self.src = Sources(text)
        self.shared = None
        self.base = None

    def where(self):
        return "schema=%s opts=%r shared=%r prior=%r text=%r" % (self.schema, self.opts, self.plan["shared"],
                                                                 self.plan.get("prior"), self.text[:1500])

    def call(self, route, fn):
        """A non-base route: any exception out of the library is a violation (the base route read the document)."""
        try:
            with warnings.catch_warnings():
                warnings.simplefilter("ignore")
                return fn()
        except (runner.Violation, runner.KnownSkip):
            raise
        except Exception as e:
            if runner.exc_in_dendropy(e):
                self.ctx.fail("route_reads_what_the_base_route_reads", "C13.route_raises:%s:%s" % (route, type(e).__name__),
                              "%s raised %s: %s although TreeList.get(data=) read the document; %s" % (
                                  route, type(e).__name__, str(e)[:300], self.where()))
                raise runner.KnownSkip()
            raise

    def nskw(self):
        if self.shared is not None:
            return {"taxon_namespace": self.shared}
        if self.plan.get("prior"):
            # every call reads into its OWN namespace that already holds the same other taxa
            return {"taxon_namespace": self.new_namespace()}
        return {}

    def new_namespace(self):
        """A namespace for a container that is read INTO: a case-sensitive read needs a case-sensitive namespace
        (NexusTaxonSymbolMapper refuses the mismatch by design).  plan["prior"]: labels it holds beforehand."""
        import dendropy
        ns = dendropy.TaxonNamespace(is_case_sensitive=bool(self.opts.get("case_sensitive_taxon_labels")))
        for label in self.plan.get("prior") or []:
            ns.new_taxon(label=label)
        return ns

    def target_ns(self):
        return self.shared if self.shared is not None else self.new_namespace()

    def same_trees(self, route, got, want_obs, want_taxa=None):
        """got: Obs; want_obs: list of tree observations; want_taxa: per tree list of Taxon objects (identity)."""
        ctx = self.ctx
        if got.trees != want_obs:
            if len(got.trees) != len(want_obs):
                d = "%d trees instead of %d" % (len(got.trees), len(want_obs))
                sub = "count"
            else:
                k = [i for i in range(len(want_obs)) if got.trees[i] != want_obs[i]][0]
                d = "tree %d differs at %s" % (k, first_diff(got.trees[k], want_obs[k]))
                sub = "head" if got.trees[k]["head"] != want_obs[k]["head"] else "nodes"
            ctx.fail("route_equals_treelist_get", "C13.differs:%s:%s" % (route, sub),
                     "%s vs TreeList.get(data=): %s; %s" % (route, d, self.where()))
            return False
        if want_taxa is not None:
            for k, (a, b) in enumerate(zip(got.taxa, want_taxa)):
                if len(a) != len(b) or any(x is not y for x, y in zip(a, b)):
                    ctx.fail("shared_namespace_same_taxon_objects", "C13.taxon_identity:%s" % route,
                             "%s: tree %d is not attached to the Taxon objects of the first read; %s" % (route, k, self.where()))
                    return False
        return True

    def in_namespace(self, route, got, ns):
        ids = set(id(t) for t in ns)
        for k, (taxa, tree) in enumerate(zip(got.taxa, got.objs)):
            if tree.taxon_namespace is not ns:
                self.ctx.fail("tree_references_the_namespace", "C13.namespace_reference:%s" % route,
                              "%s: tree %d references another TaxonNamespace object; %s" % (route, k, self.where()))
                return False
            if any(t is not None and id(t) not in ids for t in taxa):
                self.ctx.fail("taxa_are_members_of_the_namespace", "C13.namespace_membership:%s" % route,
                              "%s: tree %d carries a Taxon that is not in its namespace; %s" % (route, k, self.where()))
                return False
        return True


# ---------------------------------------------------------------------------
# NeXML documents
# ---------------------------------------------------------------------------

def build_nexml(recipe):
    import dendropy
    ns = dendropy.TaxonNamespace()
    taxa = dict((i, ns.new_taxon(label=l)) for i, l in enumerate(recipe["labels"]))
    ds = dendropy.DataSet()
    ds.add_taxon_namespace(ns)
    for L in recipe["lists"]:
        tl = dendropy.TreeList(taxon_namespace=ns, label=L["label"])
        for t in L["trees"]:
            tree = shapes.build_tree(t["spec"], ns, taxa, is_rooted=t["rooted"])
            tree.label = t["name"]
            tree.weight = t["weight"]
            for name, value in t["ann"]:
                tree.annotations.add_new(name, value)
            if t["node_ann"]:
                rt, problems = snapshot(tree)
                for k, items in t["node_ann"].items():
                    for name, value in items:
                        rt.obj[int(k)].annotations.add_new(name, value)
            tl.append(tree)
        ds.add_tree_list(tl)
    for m in recipe["matrices"]:
        cls = getattr(dendropy, MATRIX_CLASS[m["data_type"]])
        cm = cls(taxon_namespace=ns, label=m["label"])
        d = dict((taxa[i], seq) for i, seq in m["rows"])
        cls.from_dict(d, char_matrix=cm)
        ds.add_char_matrix(cm)
    with warnings.catch_warnings():
        warnings.simplefilter("ignore")
        return ds.as_string("nexml", **recipe.get("writer", {}))


# ---------------------------------------------------------------------------
# matrices
# ---------------------------------------------------------------------------

def observe_matrix(cm):
    rows = []
    taxa = []
    for t in cm:
        seq = cm[t]
        cells = []
        for c in seq:
            if c is None or isinstance(c, (int, float, str)):
                cells.append(c)
            else:
                cells.append([c.symbol, sorted(str(s) for s in c.fundamental_symbols)])
        rows.append([t.label, cells])
        taxa.append(t)
    # iteration follows the namespace, which a data set route may have filled from earlier TREES blocks: rows by label
    order = sorted(range(len(rows)), key=lambda k: (str(rows[k][0]), k))
    rows = [rows[k] for k in order]
    taxa = [taxa[k] for k in order]
    subsets = []
    cs = getattr(cm, "character_subsets", None)
    if cs:
        for name in cs.keys():
            subsets.append([name, sorted(cs[name].character_indices)])
    return {"label": cm.label, "data_type": cm.data_type, "rows": rows, "subsets": sorted(subsets)}, taxa


# ---------------------------------------------------------------------------
# extra oracle: lib/docs content
# ---------------------------------------------------------------------------

def expected_rooting(token, rooting):
    """The documented meaning of `rooting` ('force-*' wins, then the token, then the default; None = undefined)."""
    if rooting == "force-rooted":
        return True
    if rooting == "force-unrooted":
        return False
    if token is not None:
        return token
    if rooting == "default-rooted":
        return True
    if rooting == "default-unrooted":
        return False
    return None


_PROBE = {}


def tokenizer_glues_quote_after_comment():
    """C20's finding (repaired on C20's branch): "[c]'a b'" is tokenized as the unquoted token "'a".  While the library
    under test still does that, documents with a comment directly in front of a quoted token do not denote what their
    writer meant (labels, and with a TAXA/DATA block the number of taxa), so they are outside C13's domain."""
    if "glue" not in _PROBE:
        import dendropy
        try:
            t = dendropy.Tree.get(data="[c]'a b';", schema="newick")
            _PROBE["glue"] = [nd.taxon.label for nd in t.leaf_node_iter() if nd.taxon is not None] != ["a b"]
        except Exception:
            _PROBE["glue"] = True
    return _PROBE["glue"]


def content_applicable(opts):
    return not (opts.get("preserve_underscores") or opts.get("suppress_leaf_node_taxa") or opts.get("suppress_edge_lengths")
                or opts.get("suppress_internal_node_taxa") is False or opts.get("is_assign_internal_labels_to_edges")
                or opts.get("case_sensitive_taxon_labels"))


def check_content(run, base):
    ctx, doc, opts = run.ctx, run.case["doc"], run.opts
    content = doc.get("content")
    want = content["trees"]
    if len(base.objs) != len(want):
        ctx.fail("document_content", "C13.content:count", "TreeList.get delivered %d trees, the document has %d; %s" % (
            len(base.objs), len(want), run.where()))
        return
    labels = content["taxon_labels"]
    index = dict((l, i) for i, l in enumerate(labels))
    # weights are only predictable when every weight token of the text is one written in front of a tree by
    # lib/c13_docs.py: a "[&W 1/2]" that lib/docs.py attaches to the first node of a statement is read as the
    # tree's weight too (the tokenizer captures comments around the first token of the statement)
    weights_known = run.text.upper().count("[&W ") == sum(1 for t in want if t.get("weight") is not None)
    for k, (tree, exp) in enumerate(zip(base.objs, want)):
        rt, problems = snapshot(tree)
        try:
            got = rt.to_spec(taxon_index=index)
        except KeyError as e:
            ctx.fail("document_content", "C13.content:taxon", "tree %d carries taxon %s the document does not define; %s" % (k, e, run.where()))
            return
        if got != exp["spec"]:
            ctx.fail("document_content", "C13.content:structure", "tree %d: got %r, the document says %r; %s" % (k, got, exp["spec"], run.where()))
            return
        er = expected_rooting(exp["rooted"], opts.get("rooting"))
        if tree._is_rooted is not er:
            ctx.fail("document_content", "C13.content:rooting", "tree %d: is_rooted %r, token %r under rooting=%r means %r; %s" % (
                k, tree._is_rooted, exp["rooted"], opts.get("rooting"), er, run.where()))
            return
        if exp["name"] is not None and tree.label != exp["name"]:
            ctx.fail("document_content", "C13.content:name", "tree %d is named %r, the document says %r; %s" % (k, tree.label, exp["name"], run.where()))
            return
        if "weight" in exp and weights_known:
            ew = (exp["weight"] if exp["weight"] is not None else 1.0) if opts.get("store_tree_weights") else None
            if tree.weight != ew:
                ctx.fail("document_content", "C13.content:weight", "tree %d has weight %r, the document (store_tree_weights=%r) says %r; %s" % (
                    k, tree.weight, opts.get("store_tree_weights"), ew, run.where()))
                return
    ctx.cls("content_checked")


# ---------------------------------------------------------------------------
# the check
# ---------------------------------------------------------------------------

def check_case(ctx, case):
    doc = case["doc"]
    schema = doc["schema"]
    opts = dict(case["opts"])
    text = build_nexml(doc) if schema == "nexml" else doc["text"]
    run = Run(ctx, case, text, schema, opts)
    try:
        with warnings.catch_warnings():
            warnings.simplefilter("ignore")
            _check(run)
    finally:
        run.src.close()


def perturb_heap(mode, seed):
    """Unrelated allocations between two reads: a few hundred Annotation objects (the size class the readers allocate
    for metadata) are created and released in ascending / shuffled order, so that the allocator hands out the freed
    blocks in another address order to the next read.  Results that depend on object addresses (iteration over sets of
    identity-hashed objects) then differ between two reads of the same text."""
    import random
    from dendropy.datamodel.basemodel import Annotation
    junk = [Annotation(name="x%d" % i, value=i) for i in range(300)]
    order = list(range(300))
    if mode == "shuffle":
        random.Random(seed).shuffle(order)
    elif mode == "alternate":
        order = order[::2] + order[1::2]
    for i in order:
        junk[i] = None


def attempt(fn):
    try:
        with warnings.catch_warnings():
            warnings.simplefilter("ignore")
            return fn(), None
    except Exception as e:
        if runner.exc_in_dendropy(e):
            return None, e
        raise


def _check(run):
    import dendropy
    ctx, text, schema, opts, plan, src = run.ctx, run.text, run.schema, run.opts, run.plan, run.src
    kinds = plan["kinds"]
    if plan["shared"]:
        run.shared = run.new_namespace()
    if schema != "nexml" and "]'" in text and tokenizer_glues_quote_after_comment():
        ctx.cls("skipped:comment_glued_to_quoted_token(C20)")
        return
    if schema != "nexml" and has_structural_label(text):
        ctx.cls("skipped:single_structural_character_label(C02/C09 known finding)")
        return
    ctx.cls("schema:%s" % schema)
    ctx.cls("mode:%s%s" % ("shared" if plan["shared"] else "fresh", ":prepopulated" if plan.get("prior") else ""))

    # -- base route ------------------------------------------------------------------------------------------------
    base_list, err = attempt(lambda: dendropy.TreeList.get(data=text, schema=schema, **dict(run.nskw(), **opts)))
    if err is not None:
        ctx.cls("base_rejects:%s:%s" % (schema, type(err).__name__))
        for route, fn in (("DataSet.get", lambda: dendropy.DataSet.get(data=text, schema=schema, **opts)),
                          ("yield_from_files", lambda: list(dendropy.Tree.yield_from_files(
                              files=[io.StringIO(text)], schema=schema, **opts)))):
            res, e2 = attempt(fn)
            if e2 is None:
                ctx.fail("routes_agree_on_refusing", "C13.error_disagreement:%s" % route,
                         "TreeList.get(data=) raised %s (%s) but %s read the document; %s" % (
                             type(err).__name__, str(err)[:200], route, run.where()))
        return
    base = Obs(ctx, base_list, "TreeList.get")
    run.base = base
    n = len(base.trees)
    run.in_namespace("TreeList.get", base, base_list.taxon_namespace)
    base_ns_labels = [t.label for t in base_list.taxon_namespace]
    ident = base.taxa if run.shared is not None else None
    if run.shared is not None:
        ctx.check(base_list.taxon_namespace is run.shared, "namespace_argument_used", "C13.namespace_argument:TreeList.get",
                  "TreeList.get(taxon_namespace=ns) delivered another namespace; %s" % run.where())
    if n == 0:
        ctx.cls("no_trees")
    content = run.case["doc"].get("content") if schema != "nexml" else None
    if content and content_applicable(opts):
        check_content(run, base)

    # -- reading again (fresh namespace, unrelated allocations in between) gives the identical observation ---------
    for mode in ("reverse", "shuffle", "alternate"):
        perturb_heap(mode, plan["pick"])
        route = "TreeList.get(again)"
        again = run.call(route, lambda: dendropy.TreeList.get(data=text, schema=schema, **dict(
            {"taxon_namespace": run.new_namespace()} if (run.shared is not None or plan.get("prior")) else {}, **opts)))
        got = Obs(ctx, again, route)
        if got.trees != base.trees:
            k = [i for i in range(min(len(got.trees), n)) if got.trees[i] != base.trees[i]]
            ctx.fail("two_reads_of_one_text_give_identical_observations", "C13.rereading:TreeList.get",
                     "second read (after %s allocations) differs: %s; %s" % (
                         mode, first_diff(got.trees[k[0]], base.trees[k[0]]) if k else "tree count", run.where()))
            break
    perturb_heap("shuffle", plan["pick"] + 1)

    # -- source kinds ----------------------------------------------------------------------------------------------
    for kind in KINDS[1:]:
        route = "TreeList.get[%s]" % kind
        tl = run.call(route, lambda: dendropy.TreeList.get(schema=schema, **dict(src.kw(kind), **dict(run.nskw(), **opts))))
        run.same_trees(route, Obs(ctx, tl, route), base.trees, ident)

    # -- DataSet ---------------------------------------------------------------------------------------------------
    # A document the list route reads must be read by the data set route too (it additionally parses the
    # CHARACTERS/DATA/SETS blocks of these VALID documents; state left behind by those blocks must not leak into the
    # TREES blocks that follow).
    dskw = {}
    ds, e = attempt(lambda: dendropy.DataSet.get(schema=schema, **dict(src.kw(kinds["dataset"]), **dict(run.nskw(), **opts))))
    if e is not None:
        ctx.fail("route_reads_what_the_base_route_reads", "C13.route_raises:DataSet.get:%s" % type(e).__name__,
                 "DataSet.get raised %s: %s although TreeList.get(data=) read the document; %s" % (
                     type(e).__name__, str(e)[:300], run.where()))
        return
    sizes = [len(tl) for tl in ds.tree_lists]
    flat = [t for tl in ds.tree_lists for t in tl]
    run.same_trees("DataSet.get", Obs(ctx, flat, "DataSet.get"), base.trees, ident)
    for tl in ds.tree_lists:
        ctx.check(any(tl.taxon_namespace is x for x in ds.taxon_namespaces) and
                  (run.shared is None or tl.taxon_namespace is run.shared), "dataset_tree_list_namespace",
                  "C13.namespace_reference:DataSet.get", "tree list namespace is not the data set's / the one passed; %s" % run.where())
    if schema == "nexml":
        want_sizes = [len(L["trees"]) for L in run.case["doc"]["lists"]]
    elif content:
        want_sizes = []
        for t in content["trees"]:
            while len(want_sizes) <= t["block"]:
                want_sizes.append(0)
            want_sizes[t["block"]] += 1
    else:
        want_sizes = None
    if want_sizes is not None:
        ctx.check(sizes == want_sizes, "dataset_collections_are_the_documents_blocks", "C13.collections:DataSet.get",
                  lambda: "DataSet.get tree list sizes %r, the document has %r; %s" % (sizes, want_sizes, run.where()))
    if sum(sizes) != n:
        return   # reported above (known finding): offsets cannot be enumerated
    ds2 = dendropy.DataSet()
    counts = run.call("DataSet.read", lambda: ds2.read(schema=schema, **dict(src.kw(kinds["dsread"]), **dict(dskw, **dict(run.nskw(), **opts)))))
    flat2 = [t for tl in ds2.tree_lists for t in tl]
    run.same_trees("DataSet.read", Obs(ctx, flat2, "DataSet.read"), base.trees, ident)
    ctx.check(tuple(counts)[1:] == (len(sizes), len(ds.char_matrices)) and [len(tl) for tl in ds2.tree_lists] == sizes,
              "dataset_read_counts", "C13.counts:DataSet.read",
              lambda: "DataSet.read returned %r, collections %r, DataSet.get had %r and %d matrices; %s" % (
                  counts, [len(tl) for tl in ds2.tree_lists], sizes, len(ds.char_matrices), run.where()))
    starts = [sum(sizes[:i]) for i in range(len(sizes))]
    ctx.cls("collections:%d" % len(sizes))
    ctx.cls("trees:%s" % (n if n < 6 else "6+"))

    # -- every (collection, tree) offset ----------------------------------------------------------------------------
    for i, sz in enumerate(sizes):
        route = "TreeList.get(collection_offset)"
        tl = run.call(route, lambda: dendropy.TreeList.get(schema=schema, collection_offset=i,
                                                           **dict(src.kw(kinds["list_off"]), **dict(run.nskw(), **opts))))
        run.same_trees(route, Obs(ctx, tl, route), base.trees[starts[i]:starts[i] + sz],
                       None if ident is None else ident[starts[i]:starts[i] + sz])
        if sz == 0:
            # an empty collection (NeXML <trees/> element) holds no tree to select: the single-tree route must not
            # answer with a tree of another collection (it raises ValueError; its docstring also allows None)
            ctx.cls("empty_collection")
            res, e = attempt(lambda: dendropy.Tree.get(schema=schema, collection_offset=i,
                                                       **dict(src.kw(kinds["tree"]), **dict(run.nskw(), **opts))))
            ctx.check(res is None and (e is None or isinstance(e, (ValueError, IndexError))),
                      "empty_collection_delivers_no_tree", "C13.empty_collection:Tree.get",
                      lambda: "Tree.get(collection_offset=%d) on the empty collection %d of %r gave %r / %r; %s" % (
                          i, i, sizes, res, e, run.where()))
        for j in range(sz):
            route = "Tree.get(collection_offset,tree_offset)"
            t = run.call(route, lambda: dendropy.Tree.get(schema=schema, collection_offset=i, tree_offset=j,
                                                          **dict(src.kw(kinds["tree"]), **dict(run.nskw(), **opts))))
            got = Obs(ctx, [t], route)
            run.same_trees(route, got, [base.trees[starts[i] + j]], None if ident is None else [ident[starts[i] + j]])
            run.in_namespace(route, got, t.taxon_namespace)
            if run.shared is None:
                ctx.check([x.label for x in t.taxon_namespace] == base_ns_labels, "namespace_holds_all_taxa_of_the_source",
                          "C13.namespace_labels:Tree.get", lambda: "Tree.get namespace %r, TreeList.get namespace %r; %s" % (
                              [x.label for x in t.taxon_namespace], base_ns_labels, run.where()))
            route = "TreeList.get(collection_offset,tree_offset)"
            tl = run.call(route, lambda: dendropy.TreeList.get(schema=schema, collection_offset=i, tree_offset=j,
                                                               **dict(src.kw(kinds["list_off"]), **dict(run.nskw(), **opts))))
            run.same_trees(route, Obs(ctx, tl, route), base.trees[starts[i] + j:starts[i] + sz],
                           None if ident is None else ident[starts[i] + j:starts[i] + sz])
            ctx.cls("offsets_checked")
    if n and sizes[0]:
        route = "Tree.get()"
        t = run.call(route, lambda: dendropy.Tree.get(schema=schema, **dict(src.kw(kinds["tree"]), **dict(run.nskw(), **opts))))
        run.same_trees(route, Obs(ctx, [t], route), [base.trees[0]], None if ident is None else [ident[0]])
        route = "TreeList.get(tree_offset)"
        j = plan["pick"] % sizes[0]
        tl = run.call(route, lambda: dendropy.TreeList.get(schema=schema, tree_offset=j,
                                                           **dict(src.kw(kinds["list_off"]), **dict(run.nskw(), **opts))))
        run.same_trees(route, Obs(ctx, tl, route), base.trees[j:sizes[0]], None if ident is None else ident[j:sizes[0]])
    if n:
        route = "TreeList.get(negative offsets)"
        tl = run.call(route, lambda: dendropy.TreeList.get(schema=schema, collection_offset=-1, tree_offset=-1,
                                                           **dict(src.kw(kinds["list_off"]), **dict(run.nskw(), **opts))))
        last = slice(starts[-1] + max(sizes[-1] - 1, 0), starts[-1] + sizes[-1])     # last tree of the LAST collection
        run.same_trees(route, Obs(ctx, tl, route), base.trees[last], None if ident is None else ident[last])
        for what, kw in (("collection", {"collection_offset": len(sizes)}),
                         ("tree", {"collection_offset": len(sizes) - 1, "tree_offset": sizes[-1]})):
            res, e = attempt(lambda: dendropy.TreeList.get(data=text, schema=schema, **dict(kw, **dict(run.nskw(), **opts))))
            ctx.check(isinstance(e, IndexError), "offset_beyond_the_end_is_an_index_error", "C13.index_error:%s" % what,
                      lambda: "TreeList.get(%r) gave %r / %r instead of IndexError; %s" % (kw, res, e, run.where()))

    # -- TreeList.read ---------------------------------------------------------------------------------------------
    tl = dendropy.TreeList(taxon_namespace=run.target_ns())
    n1 = run.call("TreeList.read", lambda: tl.read(schema=schema, **dict(src.kw(kinds["read"]), **opts)))
    got1 = Obs(ctx, tl, "TreeList.read")
    run.same_trees("TreeList.read", got1, base.trees, ident)
    run.in_namespace("TreeList.read", got1, tl.taxon_namespace)
    ctx.check(n1 == n, "read_returns_number_of_trees", "C13.counts:TreeList.read", "read() returned %r for %d trees; %s" % (n1, n, run.where()))
    ns_len = len(tl.taxon_namespace)
    if run.shared is None:
        ctx.check([x.label for x in tl.taxon_namespace] == base_ns_labels, "namespace_holds_all_taxa_of_the_source",
                  "C13.namespace_labels:TreeList.read", lambda: "TreeList.read namespace %r, TreeList.get namespace %r; %s" % (
                      [x.label for x in tl.taxon_namespace], base_ns_labels, run.where()))
    n2 = run.call("TreeList.read(second)", lambda: tl.read(schema=schema, **dict(src.kw(kinds["read2"]), **opts)))
    got2 = Obs(ctx, tl, "TreeList.read(second)")
    ok = ctx.check(n2 == n and len(got2.trees) == 2 * n, "second_read_appends", "C13.counts:TreeList.read(second)",
                   "second read() returned %r, list has %d trees, document has %d; %s" % (n2, len(got2.trees), n, run.where()))
    if ok:
        second = Obs.__new__(Obs)
        second.trees, second.taxa, second.objs = got2.trees[n:], got2.taxa[n:], got2.objs[n:]
        run.same_trees("TreeList.read(second)", second, base.trees, got1.taxa)
        run.in_namespace("TreeList.read(second)", second, tl.taxon_namespace)
        first = Obs.__new__(Obs)
        first.trees, first.taxa, first.objs = got2.trees[:n], got2.taxa[:n], got2.objs[:n]
        run.same_trees("TreeList.read(first after second)", first, base.trees, got1.taxa)
        ctx.check(len(tl.taxon_namespace) == ns_len, "second_read_adds_no_taxa", "C13.namespace_growth:TreeList.read(second)",
                  "namespace grew from %d to %d taxa on re-reading the same document; %s" % (ns_len, len(tl.taxon_namespace), run.where()))
    if n:
        nonempty = [k for k, sz in enumerate(sizes) if sz]
        i = nonempty[plan["pick"] % len(nonempty)]
        j = (plan["pick"] // 7) % sizes[i]
        before = len(tl)
        n3 = run.call("TreeList.read(offsets)", lambda: tl.read(schema=schema, collection_offset=i, tree_offset=j,
                                                               **dict(src.kw(kinds["read"]), **opts)))
        tail = Obs(ctx, tl[before:], "TreeList.read(offsets)")
        run.same_trees("TreeList.read(offsets)", tail, base.trees[starts[i] + j:starts[i] + sizes[i]],
                       got1.taxa[starts[i] + j:starts[i] + sizes[i]])
        ctx.check(n3 == sizes[i] - j, "read_returns_number_of_trees", "C13.counts:TreeList.read(offsets)",
                  "read(collection_offset=%d, tree_offset=%d) returned %r; %s" % (i, j, n3, run.where()))

    # -- the iterator ----------------------------------------------------------------------------------------------
    perturb_heap("reverse", plan["pick"])
    yk = plan["ykinds"]
    ctx.cls("yield_kinds:%s+%s" % tuple(yk))
    files = [src.item(yk[0]), src.item(yk[1])]
    got = run.call("yield_from_files", lambda: list(dendropy.Tree.yield_from_files(files=files, schema=schema,
                                                                                  **dict(run.nskw(), **opts))))
    y = Obs(ctx, got, "yield_from_files")
    if ctx.check(len(y.trees) == 2 * n, "iterator_delivers_every_tree_of_every_file", "C13.differs:yield_from_files:count",
                 "two files of %d trees gave %d trees; %s" % (n, len(y.trees), run.where())):
        a, b = Obs.__new__(Obs), Obs.__new__(Obs)
        a.trees, a.taxa, a.objs = y.trees[:n], y.taxa[:n], y.objs[:n]
        b.trees, b.taxa, b.objs = y.trees[n:], y.taxa[n:], y.objs[n:]
        run.same_trees("yield_from_files", a, base.trees, ident)
        run.same_trees("yield_from_files(second file)", b, base.trees, a.taxa)
        if n:
            yns = y.objs[0].taxon_namespace
            run.in_namespace("yield_from_files", y, yns)
            if run.shared is None:
                ctx.check([x.label for x in yns] == base_ns_labels, "namespace_holds_all_taxa_of_the_source",
                          "C13.namespace_labels:yield_from_files", lambda: "iterator namespace %r, TreeList.get namespace %r; %s" % (
                              [x.label for x in yns], base_ns_labels, run.where()))

    # -- TreeArray -------------------------------------------------------------------------------------------------
    check_tree_array(run, n, sizes)

    # -- matrices --------------------------------------------------------------------------------------------------
    for k, cm in enumerate(ds.char_matrices):
        want, want_taxa = observe_matrix(cm)
        cls = type(cm)
        route = "%s.get(matrix_offset)" % cls.__name__
        m = run.call(route, lambda: cls.get(schema=schema, matrix_offset=k, **dict(src.kw(kinds["matrix"]), **dict(run.nskw(), **opts))))
        got_m, got_taxa = observe_matrix(m)
        ctx.check(got_m == want, "matrix_get_equals_dataset_matrix", "C13.differs:CharacterMatrix.get",
                  lambda: "matrix %d: %s; %s" % (k, first_diff(got_m, want), run.where()))
        if run.shared is not None:
            ctx.check(len(got_taxa) == len(want_taxa) and all(x is y for x, y in zip(got_taxa, want_taxa)) and
                      m.taxon_namespace is run.shared, "shared_namespace_same_taxon_objects", "C13.taxon_identity:CharacterMatrix.get",
                      "matrix %d rows are not keyed by the Taxon objects of the shared namespace; %s" % (k, run.where()))
        ctx.cls("matrix:%s" % cm.data_type)
    if ds.char_matrices and not sizes:
        ctx.cls("matrices_only")

    # -- evidence --------------------------------------------------------------------------------------------------
    if schema == "nexml":
        rec = run.case["doc"]
        feats = {"translate": False, "weight": False, "blocks": len(sizes),
                 "comment": any(t["ann"] or t["node_ann"] for L in rec["lists"] for t in L["trees"])}
    else:
        feats = c13_docs.features_of(run.case["doc"])
        feats["blocks"] = len(sizes)
    for f in ("translate", "comment", "weight", "sets", "linked"):
        if feats.get(f):
            ctx.cls("feature:%s" % f)
    for o in sorted(opts):
        ctx.cls("opt:%s=%s" % (o, opts[o]))
    if n >= 2 and (feats.get("translate") or feats.get("comment") or feats.get("weight") or feats["blocks"] >= 2):
        ctx.nontrivial([text, sorted(opts.items()), plan["shared"], plan.get("prior")])
        ctx.cls("nontrivial")
    ctx.sample("%s:%dblocks%s%s" % (schema, len(sizes), ":translate" if feats.get("translate") else "",
                                  ":weight" if feats.get("weight") else ""), {"text": text, "opts": opts})


def split_rows(ta):
    ns = ta.taxon_namespace
    rows = []
    for splits, lens in zip(ta._tree_split_bitmasks, ta._tree_edge_lengths):
        rows.append([[sorted(t.label for t in ns.bitmask_taxa_list(s)), fnorm(L)] for s, L in zip(splits, lens)])
    leafsets = [sorted(t.label for t in ns.bitmask_taxa_list(b)) for b in ta._tree_leafset_bitmasks]
    sd = ta.split_distribution

    def by_split(d):
        return sorted([sorted(t.label for t in ns.bitmask_taxa_list(k)), jsonable(v)] for k, v in d.items())
    return {"splits": rows, "weights": [fnorm(w) for w in ta._tree_weights], "leafsets": leafsets, "rooted": ta.is_rooted_trees,
            "n": len(ta),
            # what the array summarises from: per-split counts, edge lengths and node ages over all trees
            "split_counts": by_split(sd.split_counts), "split_edge_lengths": by_split(sd.split_edge_lengths),
            "split_node_ages": by_split(sd.split_node_ages), "total_trees_counted": sd.total_trees_counted,
            "sum_of_tree_weights": fnorm(sd.sum_of_tree_weights),
            "rooting_types": sorted(map(repr, sd.tree_rooting_types_counted))}


def check_tree_array(run, n, sizes):
    import dendropy
    ctx, text, schema, opts, plan, src = run.ctx, run.text, run.schema, run.opts, run.plan, run.src
    kind = plan["kinds"]["array"]
    api = plan["array_api"]

    cfg = plan.get("array_cfg") or {"ignore_edge_lengths": False, "ignore_node_ages": True, "use_tree_weights": True,
                                    "check_ultrametricity": True}
    akw = {"ignore_edge_lengths": cfg["ignore_edge_lengths"], "ignore_node_ages": cfg["ignore_node_ages"],
           "use_tree_weights": cfg["use_tree_weights"]}
    if not cfg["check_ultrametricity"]:
        akw["ultrametricity_precision"] = False      # documented: ages of non-ultrametric trees are then accepted
    ctx.cls("treearray_cfg:ignore_edge_lengths=%s,ignore_node_ages=%s" % (cfg["ignore_edge_lengths"], cfg["ignore_node_ages"]))
    ctx.cls("treearray_cfg:use_tree_weights=%s" % cfg["use_tree_weights"])

    def reference(offset):
        # an identically configured array filled with the trees the list route delivers
        ref_list = dendropy.TreeList.get(data=text, schema=schema, **dict(run.nskw(), **opts))
        ta = dendropy.TreeArray(taxon_namespace=ref_list.taxon_namespace, **akw)
        if api == "read":
            for t in ref_list[offset:]:
                ta.add_tree(t)
        else:
            ta.add_trees(ref_list[offset:])
        return ta

    def via_read(extra):
        ta = dendropy.TreeArray(taxon_namespace=run.target_ns(), **akw)
        if api == "read":
            r = ta.read(schema=schema, **dict(src.kw(kind), **dict(extra, **opts)))
        else:
            ta.read_from_files(files=[src.item(kind)], schema=schema, **dict(extra, **opts))
            r = None
        return ta, r

    variants = [("", 0, {})]
    if n and len(sizes) == 1:
        k = plan["pick"] % n
        variants.append(("(tree_offset)", k, {"tree_offset": k}))
    for tag, offset, extra in variants:
        route = "TreeArray.%s%s" % (api, tag)
        ref, ref_err = attempt(lambda: reference(offset))
        res, err = attempt(lambda: via_read(extra))
        if ref_err is not None:
            ctx.cls("treearray:reference_raises:%s" % type(ref_err).__name__)
            ctx.check(err is not None and type(err) is type(ref_err), "tree_array_read_equals_adding_the_listed_trees",
                      "C13.differs:%s:error" % route, lambda: "adding the listed trees raises %s (%s) but %s gave %r; %s" % (
                          type(ref_err).__name__, ref_err, route, err, run.where()))
            continue
        if err is not None:
            ctx.fail("tree_array_read_equals_adding_the_listed_trees", "C13.route_raises:%s:%s" % (route, type(err).__name__),
                     "%s raised %s: %s although the listed trees can be added; %s" % (route, type(err).__name__, err, run.where()))
            continue
        ta, r = res
        want, got = split_rows(ref), split_rows(ta)
        ctx.check(got == want, "tree_array_read_equals_adding_the_listed_trees", "C13.differs:%s" % route,
                  lambda: "%s; %s" % (first_diff(got, want), run.where()))
        # independent of add_tree: with use_tree_weights (the default) the array holds the weights the list route
        # delivers, a tree without weight counting 1.0
        want_w = [1.0 if (o["head"][2] is None or not cfg["use_tree_weights"]) else o["head"][2]
                  for o in run.base.trees[offset:]]
        total = ta.split_distribution.sum_of_tree_weights
        finite = all(isinstance(w, (int, float)) for w in want_w)       # non-finite weights are held as text (fnorm)
        want_w = [float(w) if isinstance(w, (int, float)) else w for w in want_w]
        ctx.check([fnorm(w) for w in ta._tree_weights] == want_w and
                  (not finite or abs(total - sum(want_w)) <= 1e-9 * (1.0 + abs(sum(want_w)))),
                  "tree_array_holds_the_delivered_tree_weights", "C13.weights:%s" % route,
                  lambda: "%s stored weights %r (sum %r), TreeList.get delivered %r; %s" % (
                      route, list(ta._tree_weights), total, [o["head"][2] for o in run.base.trees[offset:]], run.where()))
        if any(w == 0.0 for w in want_w if isinstance(w, float)):
            ctx.cls("treearray:zero_weight_tree")
        if r is not None:
            ctx.check(r == n - offset, "read_returns_number_of_trees", "C13.counts:%s" % route,
                      "%s returned %r for %d trees; %s" % (route, r, n - offset, run.where()))
        if run.shared is not None:
            ctx.check(ta._tree_split_bitmasks == ref._tree_split_bitmasks and ta.taxon_namespace is run.shared,
                      "shared_namespace_same_taxon_objects", "C13.taxon_identity:%s" % route,
                      "split bitmasks over the shared namespace differ; %s" % run.where())
        ctx.cls("treearray:compared")
        if not cfg["ignore_node_ages"]:
            ctx.cls("treearray:node_ages_compared:%s" % ("all_zero" if all(
                a == 0 for k, v in want["split_node_ages"] for a in v) else "nonzero"))
        if not cfg["ignore_edge_lengths"] and any(v for k, v in want["split_edge_lengths"]):
            ctx.cls("treearray:edge_lengths_compared")
    if n and api == "read":
        # TreeArray.read documents collection_offset like TreeList.read
        i = plan["pick"] % len(sizes)
        res, err = attempt(lambda: via_read({"collection_offset": i}))
        if isinstance(err, TypeError):
            ctx.fail("tree_array_read_accepts_documented_collection_offset", "C13.treearray_collection_offset",
                     "TreeArray.read(collection_offset=%d) raised %s: %s although its docstring lists the argument; %s" % (
                         i, type(err).__name__, err, run.where()))


NTAX_KEY = "C13.multi:nexus_iterator_keeps_ntax_of_earlier_source"


@st.composite
def multi_cases(draw, large=False):
    """2-3 DIFFERENT sources of one schema read in one call (or the same source listed twice)."""
    plan = {"shared": draw(st.booleans()), "tree_offset": draw(st.sampled_from([0, 1, 1, 2])),
            "all_streams": draw(st.integers(0, 2)) == 0, "repeat": draw(st.integers(0, 3)) == 0,
            "kinds": [draw(st.sampled_from(KINDS[1:])) for _ in range(3)],
            "array_cfg": {"ignore_edge_lengths": draw(st.booleans()), "ignore_node_ages": draw(st.booleans()),
                          "use_tree_weights": draw(st.sampled_from([True, True, False])),
                          "check_ultrametricity": draw(st.booleans())},
            "rooting": draw(st.sampled_from(["force-rooted", "force-unrooted", "force-rooted", None]))}
    family = draw(st.sampled_from(["nexml", "nexml", "newick", "newick", "nexus", "nexus"]))
    if family == "nexml":
        docs_ = draw(c13_docs.nexml_families(max_files=3))
        opts = draw(nexml_options())
    else:
        opts = draw(newick_options())
        if plan["rooting"]:
            opts["rooting"] = plan["rooting"]      # mostly one rooting state: a TreeArray takes only one
        nd = draw(st.integers(2, 3))
        if family == "newick":
            gen = st.one_of(c13_docs.rich_newick_docs(max_taxa=5, max_trees=3), c13_docs.ultrametric_newick_docs(max_trees=3),
                            c13_docs.numeric_newick_docs(max_taxa=5, max_trees=3))
        else:
            gen = None
            pool = draw(c13_docs.label_sets(5))        # the sources draw their taxa from one pool
            # which sources have a TAXA block: every mixture, or drawn per source (None)
            taxa_pattern = draw(st.sampled_from([[True, False, False], [True, False, True], [False, True, False],
                                                 [True, True, True], [False, False, False], [None, None, None]]))
            # one time in three: the first source declares its taxa (TAXA block), the later ones declare none and
            # name at least one taxon the first did not have (mostly through a TRANSLATE table)
            declared_first = draw(st.integers(0, 2)) == 0
            cut = draw(st.integers(1, 3))
        docs_ = []
        for _ in range(nd):
            if gen is None:
                # NEXUS sources with and without TAXA blocks, mixed inside one call
                sub = draw(st.lists(st.sampled_from(pool), min_size=1, max_size=4, unique=True))
                if declared_first:
                    first = not docs_
                    sub = pool[:cut] if first else [pool[cut]] + [l for l in sub if l != pool[cut]][:2]
                    d = draw(c13_docs.rich_nexus_docs(max_trees=2, max_blocks=2, max_chars=4, labels=sub, taxa=first,
                                                      translate=None if first else (draw(st.integers(0, 2)) > 0 or None)))
                    fit_options(d, opts)
                    docs_.append({"text": d["text"], "schema": d["schema"]})
                    continue
                d = draw(st.one_of(c13_docs.ultrametric_newick_docs(max_trees=3, nexus=True),
                                   c13_docs.rich_nexus_docs(max_trees=2, max_blocks=2, max_chars=4, labels=sub,
                                                            taxa=taxa_pattern[len(docs_)]),
                                   # TRANSLATE tables: where a source names its taxa when it has no TAXA block
                                   c13_docs.rich_nexus_docs(max_trees=2, max_blocks=2, max_chars=4, labels=sub,
                                                            taxa=taxa_pattern[len(docs_)], translate=True)))
            else:
                d = draw(gen)
            fit_options(d, opts)
            docs_.append({"text": d["text"], "schema": d["schema"]})
    if plan["repeat"]:
        docs_ = [docs_[0], docs_[0]]
    return {"docs": docs_, "opts": opts, "plan": plan}


def check_multi(ctx, case):
    """Several sources in one call: Tree.yield_from_files(files=[a, b, ..]) and TreeArray.read_from_files(files=[a, b,
    ..], tree_offset=k) against reading the sources one after the other (TreeList.read x n into one list, TreeArray.read
    x n into one array, add_trees of the listed trees).  A source is a source whatever its name: unnamed streams, open
    files, paths, the same path listed twice."""
    import dendropy
    docs_, opts, plan = case["docs"], dict(case["opts"]), case["plan"]
    schema = docs_[0]["schema"]
    srcs = []
    for d in docs_:
        same = [x for x in srcs if x.text == d["text"]] if plan["repeat"] else []
        srcs.append(same[0] if same else Sources(d["text"]))
    kinds = ["strio"] * len(docs_) if plan["all_streams"] else \
        (["path"] * len(docs_) if plan["repeat"] else plan["kinds"][:len(docs_)])
    cfg = plan["array_cfg"]
    akw = {"ignore_edge_lengths": cfg["ignore_edge_lengths"], "ignore_node_ages": cfg["ignore_node_ages"],
           "use_tree_weights": cfg["use_tree_weights"]}
    if not cfg["check_ultrametricity"]:
        akw["ultrametricity_precision"] = False

    def where():
        return "schema=%s opts=%r plan=%r texts=%r" % (schema, opts, dict(plan, kinds=kinds), [d["text"][:700] for d in docs_])

    def new_ns():
        return dendropy.TaxonNamespace(is_case_sensitive=bool(opts.get("case_sensitive_taxon_labels")))

    shared = new_ns() if plan["shared"] else None

    def ntax_carry_over(e):
        """input predicate of NTAX_KEY: NEXUS, a source with a TAXA block is followed by one without, and the iterator
        refuses a taxon (UndefinedTaxonError / TooManyTaxaError)"""
        has = ["BEGIN TAXA" in " ".join(d["text"].upper().split()) for d in docs_]
        return schema == "nexus" and type(e).__name__ in ("UndefinedTaxonError", "TooManyTaxaError") and \
            any(has[i] and not has[j] for i in range(len(has)) for j in range(i + 1, len(has)))

    def read_all(k=None, target=None):
        """the sources one after the other into ONE list; per-source slices"""
        tl = dendropy.TreeList(taxon_namespace=target if target is not None else (shared if shared is not None else new_ns()))
        parts = []
        for d in docs_:
            before = len(tl)
            if k:
                tl.read(data=d["text"], schema=schema, tree_offset=k, **opts)
            else:
                tl.read(data=d["text"], schema=schema, **opts)
            parts.append((before, len(tl)))
        return tl, parts

    try:
        with warnings.catch_warnings():
            warnings.simplefilter("ignore")
            if schema != "nexml" and any(has_structural_label(d["text"]) for d in docs_):
                ctx.cls("multi:skipped:single_structural_character_label(C02/C09 known finding)")
                return
            ctx.cls("multi:%s:%dsources%s" % (schema, len(docs_), ":same_source_twice" if plan["repeat"] else ""))
            ctx.cls("multi:kinds:%s" % "+".join(kinds))
            if schema == "nexus":
                has = ["BEGIN TAXA" in " ".join(d["text"].upper().split()) for d in docs_]
                ctx.cls("multi:nexus:taxa_blocks:%s" % "".join("T" if h else "-" for h in has))
            res, err = attempt(read_all)
            if err is not None:
                ctx.cls("multi:reference_rejects:%s" % type(err).__name__)
                return
            ref_list, parts = res
            ref = Obs(ctx, ref_list, "TreeList.read x n")
            sizes_known = all("sizes" in d for d in docs_)
            # extra oracle for the hand-written NeXML files: the leaves carry the labels their file assigns to the ids
            if all("leaf_labels" in d for d in docs_):
                want = [ll for d in docs_ for ll in d["leaf_labels"]]
                got = [[nd[1] for nd in o["nodes"] if nd[0] == 0] for o in ref.trees]
                ctx.check(got == want, "document_content", "C13.content:multi_leaf_labels",
                          lambda: "TreeList.read x n leaf labels %r, the files say %r; %s" % (got, want, where()))
            single_collection = sizes_known and all(len(d["sizes"]) == 1 for d in docs_) or schema == "newick"
            k = plan["tree_offset"] if single_collection else 0

            # -- the iterator over all sources ------------------------------------------------------------------
            files = [s_.item(kd) for s_, kd in zip(srcs, kinds)]
            res, err = attempt(lambda: list(dendropy.Tree.yield_from_files(
                files=files, schema=schema, **dict({"taxon_namespace": shared} if shared is not None else {}, **opts))))
            if err is not None and ntax_carry_over(err):
                ctx.cls("multi:nexus_ntax_carried_over")
                ctx.fail("iterator_over_several_sources_equals_reading_them_in_turn", NTAX_KEY,
                         "yield_from_files raised %s: %s on a later source without TAXA block after a source with one, "
                         "although the sources read one after the other; %s" % (type(err).__name__, str(err)[:300], where()))
                return
            if err is not None:
                ctx.fail("iterator_over_several_sources_equals_reading_them_in_turn", "C13.multi:route_raises:yield_from_files:%s" % type(err).__name__,
                         "yield_from_files raised %s: %s although the sources read one after the other; %s" % (type(err).__name__, str(err)[:300], where()))
                return
            y = Obs(ctx, res, "yield_from_files(multi)")
            if y.trees != ref.trees:
                bad = [i for i in range(min(len(y.trees), len(ref.trees))) if y.trees[i] != ref.trees[i]]
                ctx.fail("iterator_over_several_sources_equals_reading_them_in_turn", "C13.multi:differs:yield_from_files",
                         "%s; %s" % ("tree %d: %s" % (bad[0], first_diff(y.trees[bad[0]], ref.trees[bad[0]])) if bad else
                                     "%d trees instead of %d" % (len(y.trees), len(ref.trees)), where()))
                return
            if shared is not None:
                same = all(len(a) == len(b) and all(p is q for p, q in zip(a, b)) for a, b in zip(y.taxa, ref.taxa))
                ctx.check(same, "shared_namespace_same_taxon_objects", "C13.multi:taxon_identity:yield_from_files",
                          lambda: "the iterator attached trees to other Taxon objects than TreeList.read x n; %s" % where())
            # one Taxon per label inside one route
            by_label = {}
            ok = True
            for taxa in y.taxa:
                for t in taxa:
                    if t is not None and by_label.setdefault(t.label, t) is not t:
                        ok = False
            ctx.check(ok, "one_taxon_per_label", "C13.multi:duplicate_taxa:yield_from_files",
                      lambda: "the iterator delivered two Taxon objects with one label; %s" % where())

            # -- TreeArray: all sources in one call / one call per source / the listed trees ---------------------
            ctx.cls("multi:treearray_cfg:ignore_edge_lengths=%s,ignore_node_ages=%s" % (cfg["ignore_edge_lengths"], cfg["ignore_node_ages"]))
            ctx.cls("multi:tree_offset=%d" % k)

            def reference():
                tl, pp = read_all()
                ta = dendropy.TreeArray(taxon_namespace=tl.taxon_namespace, **akw)
                for a, b in pp:
                    ta.add_trees(tl[a + k:b] if b - a > k else [])
                return ta

            def in_one_call():
                ta = dendropy.TreeArray(taxon_namespace=shared if shared is not None else new_ns(), **akw)
                ta.read_from_files(files=[s_.item(kd) for s_, kd in zip(srcs, kinds)], schema=schema,
                                   **dict({"tree_offset": k} if k else {}, **opts))
                return ta

            def one_call_per_source():
                ta = dendropy.TreeArray(taxon_namespace=shared if shared is not None else new_ns(), **akw)
                for s_, kd in zip(srcs, kinds):
                    ta.read(schema=schema, **dict(s_.kw(kd), **dict({"tree_offset": k} if k else {}, **opts)))
                return ta
            want_ta, want_err = attempt(reference)
            for route, fn in (("TreeArray.read_from_files(multi)", in_one_call), ("TreeArray.read x n", one_call_per_source)):
                ta, err = attempt(fn)
                if want_err is not None:
                    ctx.cls("multi:treearray_reference_raises:%s" % type(want_err).__name__)
                    ctx.check(err is not None and type(err) is type(want_err), "tree_array_over_several_sources",
                              "C13.multi:differs:%s:error" % route, lambda: "adding the listed trees raises %s but %s gave %r; %s" % (
                                  type(want_err).__name__, route, err, where()))
                    continue
                if err is not None and fn is in_one_call and ntax_carry_over(err):
                    ctx.fail("tree_array_over_several_sources", NTAX_KEY, "%s raised %s: %s; %s" % (
                        route, type(err).__name__, str(err)[:300], where()))
                    continue
                if err is not None:
                    ctx.fail("tree_array_over_several_sources", "C13.multi:route_raises:%s:%s" % (route, type(err).__name__),
                             "%s raised %s: %s; %s" % (route, type(err).__name__, str(err)[:300], where()))
                    continue
                a, b = split_rows(ta), split_rows(want_ta)
                ctx.check(a == b, "tree_array_over_several_sources", "C13.multi:differs:%s" % route,
                          lambda: "%s (tree_offset=%d, %d vs %d trees); %s" % (first_diff(a, b), k, a["n"], b["n"], where()))
                ctx.cls("multi:treearray_compared")
            # -- TreeList.read(tree_offset=k) per source (documented IndexError when a source has <= k trees) -----
            if k and all(b - a > k for a, b in parts):
                res, err = attempt(lambda: read_all(k=k))
                if err is not None:
                    ctx.fail("burn_in_per_source", "C13.multi:route_raises:TreeList.read(tree_offset):%s" % type(err).__name__,
                             "%s: %s; %s" % (type(err).__name__, str(err)[:300], where()))
                else:
                    got = Obs(ctx, res[0], "TreeList.read(tree_offset) x n")
                    want = [o for a, b in parts for o in ref.trees[a + k:b]]
                    ctx.check(got.trees == want, "burn_in_per_source", "C13.multi:differs:TreeList.read(tree_offset)",
                              lambda: "%d trees instead of %d; %s" % (len(got.trees), len(want), where()))
            if len(ref.trees) >= 2:
                ctx.nontrivial(["multi", [d["text"] for d in docs_], sorted(opts.items()), plan["shared"], kinds, k])
            ctx.sample("multi:%s" % schema, {"texts": [d["text"] for d in docs_], "opts": opts, "kinds": kinds, "tree_offset": k})
    finally:
        for s_ in srcs:
            s_.close()


SUBCHECKS = {"docs": check_case, "rich": check_case, "nexml": check_case, "numeric": check_case, "multi": check_multi}


def run(ctx):
    quick = ctx.tier == "quick"
    tot = TOTALS[ctx.tier]
    n = ctx.nshards
    # NeXML first: its documents are written with the process-wide state alphabets, to which reading a NEXUS matrix
    # with symbol-less polymorphic cells "(CT)" adds states (the writer then emits symbol="None")
    runner.run_given(ctx, "nexml", nexml_cases(large=not quick), check_case, tot["nexml"] // n)
    runner.run_given(ctx, "docs", doc_cases(large=not quick), check_case, tot["docs"] // n)
    runner.run_given(ctx, "rich", rich_cases(large=not quick), check_case, tot["rich"] // n)
    runner.run_given(ctx, "numeric", numeric_cases(large=not quick), check_case, tot["numeric"] // n)
    runner.run_given(ctx, "multi", multi_cases(large=not quick), check_multi, tot["multi"] // n)
