"""C12 - copies are equal to their source and independent of it at the documented depth.

Objects are built from plain data (trees with static / attribute-bound annotations, comments, extra attributes,
encoded bipartitions; tree lists; character matrices of several data types; namespaces with annotated taxa), copied
through every documented route, and judged by four independent oracles:
  (1) equality of full observations (lib/c12_observe.Observer: state read through vars() + raw links);
  (2) identity disjointness: the sets of mutable objects reachable from source and from copy (own walker) intersect
      exactly in what the route documents as shared;
  (3) non-interference: after a drawn mutation of one side the other side's observation is bit-identical;
  (4) an attribute-bound annotation on the copy reads the copy's attribute."""
import copy as pycopy

from hypothesis import strategies as st

from lib import runner, shapes
from lib.c12_observe import Observer, reach, describe_shared
from lib.snapshot import snapshot

CONFIG = {
    "shards": {"quick": 8, "thorough": 16},
    "budget_s": {"quick": 120, "thorough": 1500},
    "rule": ("Hypothesis, four sub-checks. tree: shape (1-8 leaves quick / <= 40 thorough; polytomies, unifurcations, "
             "labels, taxa on internal nodes, every length pattern, three rootings, weight, namespace history with unused/removed taxa, in about half of the cases taxon labels edited into duplicates / case variants / None) decorated "
             "with static annotations (scalar and list values, sub-annotations), attribute-bound annotations (own custom "
             "attributes, built-in label/length/weight, owner = the node's edge), comments, extra attributes (scalars, "
             "lists, references to nodes of the same tree) on tree / nodes / edges / taxa / namespace, with or without "
             "encoded bipartitions (mutable or not, edge maps cached or not) x route {deepcopy, clone(0|1|2), Tree(t), "
             "Tree(t, label=), Tree(t, taxon_namespace=foreign), copy.copy, extract_tree} x one mutation of source or "
             "copy out of 34 kinds. treelist: 0-3 such trees over one namespace x 8 routes x list-level or per-tree "
             "mutation. matrix: 9 matrix types (dna, rna, nucleotide, protein, restriction, infinite, standard, standard "
             "with custom alphabet, continuous) with matrix / sequence / cell / subset / character-type annotations x 8 "
             "routes x 19 mutation kinds. namespace: annotated taxa x 7 routes x 12 mutation kinds. Exhaustive part: "
             "every route x every mutation kind x both sides on one fixed annotated object of each kind (4-leaf tree). "
             "Non-trivial = the object carries >= 1 annotation or encoded bipartitions and a mutation was applied after "
             "the copy; distinct = (object spec, route, mutation)."),
    "exhaustive": {"quick": False, "thorough": False},
    "exhaustive_note": {"quick": "every copy route x every mutation kind x {source, copy} on one fixed annotated 4-leaf tree, "
                                 "2-tree list, standard matrix and namespace",
                        "thorough": "same, with 3 selector values per mutation"},
    "assumptions": [
        "taxon labels are strings or None and need NOT identify the taxa: after construction some labels are edited into "
        "duplicates, case variants of another label, or None (except on the taxon_namespace= route, which maps taxa by label "
        "and is only exercised with unique labels); every leaf carries a taxon, internal nodes may carry "
        "one too (each taxon on at most one node of a tree), and the namespace may hold taxa that sit on no node",
        "copy.copy / clone(0) of a Tree is asserted namespace-scoped (Tree.__copy__); for TreeList / CharacterMatrix / "
        "TaxonNamespace clone(0) / copy.copy is documented shallow, so only 'new container with the same members, "
        "independent annotations' is asserted there",
        "TaxonNamespace.clone(1) returns the namespace itself by design",
        "state alphabets and state identities are shared singletons by design and are not counted as shared parts",
        "with a foreign taxon_namespace= the copy's taxa are the foreign namespace's taxa of equal label (created on "
        "demand); taxon annotations and bipartition bit values are not compared on that route",
        "extract_tree is called with suppress_unifurcations=False when the source has outdegree-1 nodes; its "
        "extraction_source back-references are documented and excluded from the identity walk",
        "high-level mutators used as 'later changes' (reroot, prune, ladderize, ...) may raise on inputs outside their "
        "own domain; the non-interference verdict is evaluated regardless",
        "source objects may be trees produced by extract_tree / extract_tree_with_taxa (alone, or in a list next to the tree "
        "they were extracted from, in either order); their extraction_source back-references are part of the object: a deep or "
        "scoped copy must not reach any live node of the source tree through them",
        "the namespace may hold no taxon at all at copy time (trees whose nodes carry labels only, empty lists and matrices)",
        "DataSet is excluded (documented as not copyable); trees have <= 40 leaves (deepcopy recursion is linear in depth)",
    ],
}

B = st.booleans()
SEL = st.integers(0, 2 ** 16)

# ---------------------------------------------------------------------------------------------------------------------
# plain-data strategies
# ---------------------------------------------------------------------------------------------------------------------

ANN_NAMES = ["color", "size", "note", "x", "pop"]
SCALARS = st.one_of(st.integers(-3, 9), st.sampled_from([0.5, 2.25, 1e-3, 1e12]), st.sampled_from(["red", "", "a b", "42"]), B,
                    st.none())
VALUES = st.one_of(SCALARS, SCALARS, st.lists(st.integers(0, 9), max_size=3),
                   st.fixed_dictionaries({"k": st.integers(0, 3)}))


@st.composite
def decor(draw, builtin=(), refs=False, p=3, owner_edge=False):
    """Plain description of what hangs on one Annotable object."""
    d = {}
    if draw(st.integers(0, 3)) < p:
        d["ann"] = draw(st.lists(st.tuples(st.sampled_from(ANN_NAMES), VALUES).map(list), min_size=1, max_size=3))
        if draw(st.integers(0, 3)) == 0:
            d["subann"] = [[draw(st.integers(0, 2)), draw(st.sampled_from(ANN_NAMES)), draw(VALUES)]]
    if draw(st.integers(0, 3)) < p:
        attrs = draw(st.lists(st.sampled_from(["b0", "b1"] + list(builtin)), min_size=1, max_size=2, unique=True))
        d["bound"] = []
        for a in attrs:
            if a in ("b0", "b1"):
                d["bound"].append([a, draw(VALUES), False])
            else:
                d["bound"].append([a, None, False])
        if owner_edge and draw(B):
            d["bound"].append(["length", None, True])
    if draw(st.integers(0, 3)) == 0:
        d["comments"] = draw(st.lists(st.sampled_from(["c1", "a comment", "[&x]"]), min_size=1, max_size=2))
    if draw(st.integers(0, 3)) == 0:
        if refs and draw(B):
            d["extra"] = [["x0", {"ref": draw(st.integers(0, 63))}]]
        else:
            d["extra"] = [["x0", draw(VALUES)]]
            if draw(B):
                d["extra"].append(["x1", draw(st.lists(st.integers(0, 9), min_size=1, max_size=3))])
    return d


def place_internal_taxa(draw, spec, pool):
    """Put some of the namespace's spare taxa (indices in `pool`, each at most once) on internal nodes of the spec."""
    inner = [s for s in shapes.spec_nodes(spec) if s["ch"]]
    pool = list(pool)
    if not inner or not pool:
        return 0
    k = min(len(inner), len(pool)) - draw(st.integers(0, min(len(inner), len(pool))))
    if k == 0:
        return 0
    where = draw(st.permutations(list(range(len(inner)))))[:k]
    which = draw(st.permutations(pool))[:k]
    for w, t in zip(where, which):
        inner[w]["t"] = t
    return k


def spare_taxa(hist, n):
    return [i for i in range(n, n + hist["extra"]) if i not in hist["removed"]]


@st.composite
def tree_objects(draw, max_leaves, min_leaves=1, n_taxa=None, internal_pool=()):
    hi = max_leaves if n_taxa is None else min(max_leaves, n_taxa)
    sl = draw(shapes.with_lengths(shapes.shapes(min_leaves=min(min_leaves, hi), max_leaves=hi, max_arity=4, unifurcations=True),
                                  root_length=True))
    spec = sl["spec"]
    nodes = shapes.spec_nodes(spec)
    for k, s in enumerate(nodes):
        if draw(st.integers(0, 3)) == 0:
            s["lab"] = "n%d" % k
    nn = len(nodes)
    k_dec = draw(st.integers(0, min(3, nn)))
    ndec = [[draw(st.integers(0, nn - 1)), draw(decor(builtin=("label",), refs=True, owner_edge=True))] for _ in range(k_dec)]
    k_dec = draw(st.integers(0, min(2, nn)))
    edec = [[draw(st.integers(0, nn - 1)), draw(decor(builtin=("length", "label")))] for _ in range(k_dec)]
    elabels = [[draw(st.integers(0, nn - 1)), "e%d" % q] for q in range(draw(st.integers(0, 2)))]
    obj = {"kind": "tree", "spec": spec, "lenpat": sl["lenpat"], "rooted": draw(st.sampled_from([True, False, None])),
           "elabels": elabels, "length_type": draw(st.sampled_from([None, None, "float"])),
           "label": draw(st.sampled_from([None, "t1", "a tree"])), "weight": draw(st.sampled_from([None, None, 1.0, 0.25, 3])),
           "tdec": draw(decor(builtin=("label", "weight"), refs=True)), "ndec": ndec, "edec": edec,
           "enc": draw(st.sampled_from([None, None, {"mutable": False, "maps": False}, {"mutable": False, "maps": True},
                                        {"mutable": True, "maps": False}]))}
    if n_taxa is not None:
        place_internal_taxa(draw, spec, internal_pool)
    if n_taxa is None:
        n = shapes.n_leaves(spec)
        obj["hist"] = draw(shapes.namespace_history(n, max_extra=3))
        # taxa on internal nodes; the remaining spare taxa of the namespace sit on no node at all
        place_internal_taxa(draw, spec, spare_taxa(obj["hist"], n))
        obj["nslabel"] = draw(st.sampled_from([None, "taxa"]))
        obj["nsdec"] = draw(decor(builtin=("label",), p=1))
        k_dec = draw(st.integers(0, 2))
        obj["xdec"] = [[draw(st.integers(0, n - 1)), draw(decor(p=2))] for _ in range(k_dec)]
    return obj


def muts(kinds):
    kinds = list(kinds)
    return st.fixed_dictionaries({"side": st.sampled_from(["src", "copy"]), "kind": SEL.map(lambda k: kinds[k % len(kinds)]),
                                  "sel": SEL, "sel2": SEL, "val": VALUES, "flag": B})


@st.composite
def foreign_ns(draw, n):
    """Foreign namespace: which of the source labels it already holds (drawn order), plus unrelated members."""
    have = draw(st.lists(st.integers(0, max(0, n - 1)), max_size=n, unique=True)) if n else []
    return {"have": have, "other": draw(st.integers(0, 2)), "other_first": draw(B), "case_sensitive": draw(B)}


TREE_ROUTES = ["deepcopy", "clone0", "clone1", "clone2", "ctor", "ctor_label", "ctor_ns", "copy", "extract"]
LIST_ROUTES = ["deepcopy", "clone0", "clone1", "clone2", "ctor", "ctor_label", "ctor_ns", "copy"]
MATRIX_ROUTES = LIST_ROUTES
NS_ROUTES = ["deepcopy", "clone0", "clone1", "clone2", "ctor", "ctor_label", "copy"]

DEPTH = {"deepcopy": "deep", "clone2": "deep", "clone1": "scoped", "ctor": "scoped", "ctor_label": "scoped",
         "ctor_ns": "foreign", "extract": "thin"}

TREE_MUTS = ["add_child", "new_child", "insert_child", "remove_child", "clear_children", "reparent", "reverse_children",
             "edge_length", "node_label", "edge_label", "node_taxon", "taxon_label", "ann_value", "ann_inplace", "ann_add",
             "ann_drop", "ann_rename", "bound_attr", "taxon_ann", "comment", "extra_inplace", "extra_set", "tree_label",
             "tree_weight", "tree_rooting", "encode", "ns_add_taxon", "ns_label", "reroot", "prune", "ladderize", "scale_edges",
             "suppress_unifurcations", "collapse_edge"]
NS_LEVEL = {"taxon_label", "taxon_ann", "ns_add_taxon", "ns_label"}
HIGH_LEVEL = {"reroot", "prune", "ladderize", "scale_edges", "suppress_unifurcations", "collapse_edge", "encode"}
LIST_MUTS = ["tree", "tree", "tree", "append_tree", "remove_tree", "insert_tree", "list_label", "list_ann_value", "list_ann_add",
             "list_comment", "list_bound_attr", "taxon_label", "setitem_tree"]
LIST_SHALLOW_MUTS = ["append_tree", "remove_tree", "insert_tree", "list_label", "list_ann_value", "list_ann_add", "setitem_tree"]
MATRIX_MUTS = ["cell_set", "seq_append", "seq_del_cell", "del_sequence", "new_sequence", "seq_ann_value", "seq_ann_add",
               "m_ann_value", "m_ann_add", "m_label", "m_comment", "m_bound_attr", "subset_add_index", "subset_ann", "new_subset",
               "del_subset", "ctype_label", "cell_ann_value", "taxon_label"]
MATRIX_SHALLOW_MUTS = ["del_sequence", "new_sequence", "m_ann_value", "m_ann_add", "m_label"]
NS_MUTS = ["add_taxon", "remove_taxon", "taxon_label", "ns_ann_value", "ns_ann_add", "ns_label", "ns_comment", "taxon_ann_value",
           "sort", "reverse", "ns_bound_attr", "taxon_bound_attr"]
NS_SHARED_TAXON_MUTS = {"taxon_label", "taxon_ann_value", "taxon_bound_attr"}

MATRIX_TYPES = {
    "dna": ("DnaCharacterMatrix", "ACGT-?NRY"),
    "rna": ("RnaCharacterMatrix", "ACGU-?N"),
    "nucleotide": ("NucleotideCharacterMatrix", "ACGTU-?N"),
    "protein": ("ProteinCharacterMatrix", "ACDEFGHIKLMNPQRSTVWY*-?X"),
    "restriction": ("RestrictionSitesCharacterMatrix", "10"),
    "infinite": ("InfiniteSitesCharacterMatrix", "10"),
    "standard": ("StandardCharacterMatrix", "0123456789-?"),
    "standard_abc": ("StandardCharacterMatrix", "abc-?"),
    "continuous": ("ContinuousCharacterMatrix", None),
}
CONT_POOL = [0.0, 1.0, -2.5, 0.125, 1e-9, 3.141592653589793, 1e12, 7]


@st.composite
def relabels(draw, n):
    """Later edits of taxon labels (taxon.label = ...) after which labels no longer identify the taxa of the namespace:
    [[taxon index, "dup" | "case" | "none", other taxon index]] -> the label of `other`, its lower-case variant, or None."""
    if n < 1 or not draw(B):
        return []
    return [[draw(st.integers(0, n - 1)), draw(st.sampled_from(["dup", "case", "none"])), draw(st.integers(0, n - 1))]
            for _ in range(draw(st.integers(1, 2)))]


@st.composite
def tree_cases(draw, max_leaves, route=None):
    obj = draw(tree_objects(max_leaves))
    route = route or draw(st.sampled_from(TREE_ROUTES))
    if route != "ctor_ns":
        obj["relabel"] = draw(relabels(shapes.n_leaves(obj["spec"])))
    special = draw(st.integers(0, 7))
    if special == 7:
        obj["empty_ns"] = True
    elif special >= 5:
        obj["extracted"] = {"with_taxa": draw(B), "mask": draw(SEL)}
    case = {"obj": obj, "route": route, "mut": draw(muts(TREE_MUTS))}
    if route == "ctor_ns":
        case["foreign"] = draw(foreign_ns(shapes.n_leaves(obj["spec"])))
    if route == "extract":
        case["su"] = draw(B)
        case["esr"] = draw(B)
    return case


@st.composite
def list_cases(draw, max_leaves, route=None):
    n = draw(st.integers(1, max_leaves))
    k = 3 - draw(st.integers(0, 3))
    hist = draw(shapes.namespace_history(n, max_extra=3))
    trees = [draw(tree_objects(max_leaves, n_taxa=n, internal_pool=spare_taxa(hist, n))) for _ in range(k)]
    obj = {"kind": "treelist", "n": n, "hist": hist, "trees": trees,
           "label": draw(st.sampled_from([None, "trees"])), "ldec": draw(decor(builtin=("label",), refs=True)),
           "xdec": [[draw(st.integers(0, n - 1)), draw(decor(p=2))] for _ in range(draw(st.integers(0, 1)))]}
    route = route or draw(st.sampled_from(LIST_ROUTES))
    if route != "ctor_ns":
        obj["relabel"] = draw(relabels(n))
    special = draw(st.integers(0, 7))
    if special == 7:
        obj["empty_ns"] = True
    elif special >= 4 and trees:
        trees[draw(st.integers(0, len(trees) - 1))]["pair"] = {"before": draw(B), "with_taxa": draw(B), "mask": draw(SEL)}
    case = {"obj": obj, "route": route, "mut": draw(muts(LIST_MUTS)), "tmut": draw(muts(TREE_MUTS)),
            "newtree": draw(tree_objects(min(4, max_leaves), n_taxa=n, internal_pool=spare_taxa(hist, n)))}
    if route == "ctor_ns":
        case["foreign"] = draw(foreign_ns(n))
    return case


@st.composite
def matrix_cases(draw, max_taxa, max_cols, route=None):
    dtype = draw(st.sampled_from(sorted(MATRIX_TYPES)))
    n = draw(st.integers(1, max_taxa))
    ncol = max_cols - draw(st.integers(0, max_cols))
    drop = set(draw(st.lists(st.integers(0, n - 1), unique=True, max_size=n)))
    have = [i for i in draw(st.permutations(list(range(n)))) if i not in drop]
    ragged = draw(st.integers(0, 4)) == 0
    rows = []
    for i in have:
        L = draw(st.integers(0, max_cols)) if ragged else ncol
        rows.append([i, draw(st.lists(st.integers(0, 40), min_size=L, max_size=L))])
    obj = {"kind": "matrix", "dtype": dtype, "n": n, "hist": draw(shapes.namespace_history(n, max_extra=2)), "rows": rows,
           "label": draw(st.sampled_from([None, "M", "a matrix"])), "mdec": draw(decor(builtin=("label",))),
           "seqdec": [[draw(SEL), draw(decor(p=2))] for _ in range(draw(st.integers(0, 2)))],
           "subsets": [["s%d" % q, draw(st.lists(st.integers(0, max(0, max_cols - 1)), max_size=4, unique=True)), draw(decor(p=1))]
                       for q in range(draw(st.integers(0, 2)))],
           "ctypes": [["ct%d" % q, draw(decor(p=1)), draw(st.lists(st.tuples(SEL, SEL).map(list), max_size=3)), draw(B)]
                      for q in range(draw(st.integers(0, 2)))],
           "cellann": [[draw(SEL), draw(SEL), draw(st.sampled_from(ANN_NAMES)), draw(VALUES)] for _ in range(draw(st.integers(0, 2)))],
           "xdec": [[draw(st.integers(0, n - 1)), draw(decor(p=2))] for _ in range(draw(st.integers(0, 1)))]}
    route = route or draw(st.sampled_from(MATRIX_ROUTES))
    if route != "ctor_ns":
        obj["relabel"] = draw(relabels(n))
    if draw(st.integers(0, 7)) == 7:
        obj["empty_ns"] = True
    case = {"obj": obj, "route": route, "mut": draw(muts(MATRIX_MUTS))}
    if route == "ctor_ns":
        case["foreign"] = draw(foreign_ns(n))
    return case


@st.composite
def ns_cases(draw, max_taxa, route=None):
    n = draw(st.integers(0, max_taxa))
    obj = {"kind": "namespace", "n": n, "hist": draw(shapes.namespace_history(n, max_extra=2)),
           "label": draw(st.sampled_from([None, "taxa"])), "nsdec": draw(decor(builtin=("label",))),
           "xdec": [[draw(st.integers(0, max(0, n - 1))), draw(decor())] for _ in range(draw(st.integers(0, 3)) if n else 0)],
           "case_sensitive": draw(B), "immutable": draw(st.integers(0, 5)) == 5, "bitmasks_cached": draw(B),
           "relabel": draw(relabels(n))}
    return {"obj": obj, "route": route or draw(st.sampled_from(NS_ROUTES)), "mut": draw(muts(NS_MUTS))}


# ---------------------------------------------------------------------------------------------------------------------
# builders: plain data -> DendroPy objects (constructors, add_child, annotations.add_new / add_bound_attribute only)
# ---------------------------------------------------------------------------------------------------------------------

def plain(v):
    return pycopy.deepcopy(v)  # stdlib copy of JSON data: every use gets its own fresh lists


def decorate(obj, dec, nodes=None, edge_of=None):
    if not dec:
        return
    for name, val in dec.get("ann", []):
        obj.annotations.add_new(name, plain(val))
    for idx, name, val in dec.get("subann", []):
        items = list(obj.annotations._item_list)
        if items:
            items[idx % len(items)].annotations.add_new(name, plain(val))
    for attr, val, on_edge in dec.get("bound", []):
        owner = obj
        if on_edge:
            if edge_of is None:
                continue
            owner = edge_of(obj)
        if attr in ("b0", "b1"):
            setattr(owner, attr, plain(val))
        obj.annotations.add_bound_attribute(attr, owner_instance=owner if on_edge else None)
    if hasattr(obj, "comments"):
        for c in dec.get("comments", []):
            obj.comments.append(c)
    for attr, val in dec.get("extra", []):
        if isinstance(val, dict) and "ref" in val:
            setattr(obj, attr, nodes[val["ref"] % len(nodes)] if nodes else None)
        else:
            setattr(obj, attr, plain(val))


def has_decor(dec):
    return bool(dec and (dec.get("ann") or dec.get("bound")))


def build_ns(obj, **kw):
    if obj.get("empty_ns"):
        # a namespace without any taxon at copy time (collection cloned before being filled, tree with labels only)
        obj = dict(obj, hist=EMPTY_HIST, xdec=[], relabel=[])
    ns, taxa, bits = shapes.build_namespace(obj["hist"], **kw)
    if obj.get("nslabel") is not None:
        ns.label = obj["nslabel"]
    decorate(ns, obj.get("nsdec"))
    for idx, dec in obj.get("xdec", []):
        if idx in taxa:
            decorate(taxa[idx], dec)
    relabel_taxa(taxa, obj.get("relabel"))
    return ns, taxa


def relabel_taxa(taxa, relabel):
    """Labels edited after the namespace was filled (e.g. names shortened): duplicates, case variants, unlabelled taxa."""
    n = len([i for i in taxa])
    for idx, how, other in relabel or []:
        if idx not in taxa:
            continue
        if other == idx and (idx + 1) in taxa:
            other = idx + 1
        if how == "dup":
            taxa[idx].label = "T%d" % other
        elif how == "case":
            taxa[idx].label = "t%d" % other
        else:
            taxa[idx].label = None


def label_classes(ns):
    """Evidence classes: in which ways do the labels of this namespace fail to identify its taxa?"""
    labels = [t._label for t in ns._taxa]
    out = []
    if any(l is None for l in labels):
        out.append("unlabelled_taxon")
    strs = [l for l in labels if isinstance(l, str)]
    if len(set(strs)) < len(strs):
        out.append("duplicate_labels")
    if len(set(l.lower() for l in strs)) < len(set(strs)):
        out.append("labels_differing_in_case_only")
    return out or ["labels_unique"]


EMPTY_HIST = {"extra": 0, "order": [], "removed": [], "sort": None}


def strip_taxa(spec):
    """The same shape with no taxa at all: former taxon nodes carry a label instead."""
    return {"t": None, "lab": spec["lab"] if spec["t"] is None else "L%d" % spec["t"], "len": spec["len"],
            "ch": [strip_taxa(c) for c in spec["ch"]]}


def extract_from(tree, how):
    """A tree produced by extract_tree / extract_tree_with_taxa: its nodes carry `extraction_source` references to the
    nodes of `tree`.  how = {"with_taxa": bool, "mask": int}"""
    leaf_taxa = []
    for nd in snapshot(tree)[0].obj:
        if not nd._child_nodes and nd.taxon is not None:
            leaf_taxa.append(nd.taxon)
    if how.get("with_taxa") and leaf_taxa:
        keep = [t for k, t in enumerate(leaf_taxa) if (how["mask"] >> (k % 16)) & 1] or leaf_taxa[:1]
        return tree.extract_tree_with_taxa(keep)
    return tree.extract_tree()


def build_tree_obj(obj, ns=None, taxa=None, empty_ns=False):
    if ns is None:
        ns, taxa = build_ns(obj)
    spec = strip_taxa(obj["spec"]) if (empty_ns or obj.get("empty_ns")) else obj["spec"]
    tree = shapes.build_tree(spec, ns, taxa, is_rooted=obj["rooted"])
    if obj.get("extracted"):
        for k, lab in obj.get("elabels", []):
            nds = snapshot(tree)[0].obj
            nds[k % len(nds)]._edge.label = lab
        tree = extract_from(tree, obj["extracted"])
    if obj.get("label") is not None:
        tree.label = obj["label"]
    if obj.get("weight") is not None:
        tree.weight = obj["weight"]
    rt, problems = snapshot(tree)
    if problems:
        raise runner.HarnessError("built tree is malformed: %r" % problems)
    nodes = list(rt.obj)
    for k, lab in obj.get("elabels", []):
        nodes[k % len(nodes)]._edge.label = lab
    if obj.get("length_type") is not None:
        tree.length_type = obj["length_type"]
    decorate(tree, obj.get("tdec"), nodes)
    for k, dec in obj.get("ndec", []):
        decorate(nodes[k % len(nodes)], dec, nodes, edge_of=lambda nd: nd._edge)
    for k, dec in obj.get("edec", []):
        decorate(nodes[k % len(nodes)]._edge, dec, nodes)
    enc = obj.get("enc")
    if enc:
        tree.encode_bipartitions(suppress_unifurcations=False, collapse_unrooted_basal_bifurcation=False,
                                 is_bipartitions_mutable=enc["mutable"])
        if enc["maps"] and not enc["mutable"] and not (empty_ns or obj.get("empty_ns")):
            # (without any taxon the encoding leaves mutable bipartitions behind, which cannot key the edge maps)
            tree.bipartition_edge_map
            tree.split_bitmask_edge_map
    return tree


def tree_is_interesting(obj):
    return bool(obj.get("enc") or has_decor(obj.get("tdec")) or any(has_decor(d) for _, d in obj.get("ndec", []))
                or any(has_decor(d) for _, d in obj.get("edec", [])))


def build_foreign(fspec, n):
    import dendropy
    ns = dendropy.TaxonNamespace(is_case_sensitive=fspec["case_sensitive"])
    names = ["T%d" % i for i in fspec["have"] if i < n]
    others = ["Q%d" % k for k in range(fspec["other"])]
    for nm in (others + names if fspec["other_first"] else names + others):
        ns.add_taxon(dendropy.Taxon(label=nm))
    return ns


def build_treelist_obj(obj):
    import dendropy
    ns, taxa = build_ns(obj)
    tl = dendropy.TreeList(taxon_namespace=ns, label=obj.get("label"))
    for tobj in obj["trees"]:
        t = build_tree_obj(tobj, ns, taxa, empty_ns=bool(obj.get("empty_ns")))
        pair = tobj.get("pair")
        if pair:
            # the list holds a tree together with a tree extracted from it, in either order
            ext = extract_from(t, pair)
            for x in ([ext, t] if pair["before"] else [t, ext]):
                tl.append(x)
        else:
            tl.append(t)
    decorate(tl, obj.get("ldec"), nodes=list(tl._trees) or None)
    return tl, taxa


class Kit(object):
    """Values of one matrix data type: drawn cell number -> library value."""

    def __init__(self, dtype):
        import dendropy
        self.dtype = dtype
        self.cls = getattr(dendropy, MATRIX_TYPES[dtype][0])
        self.alphabet = None
        if dtype == "continuous":
            self.pool = list(CONT_POOL)
            return
        if dtype == "standard_abc":
            self.alphabet = sa = dendropy.new_standard_state_alphabet("abc")
        elif dtype == "standard":
            self.alphabet = sa = dendropy.new_standard_state_alphabet()
        else:
            sa = self.cls.datatype_alphabet
        by_symbol = {}
        for s in sa:
            by_symbol.setdefault(s.symbol, s)
        missing = [c for c in MATRIX_TYPES[dtype][1] if c not in by_symbol]
        if missing:
            raise runner.HarnessError("alphabet of %s lacks symbols %r" % (dtype, missing))
        self.pool = [by_symbol[c] for c in MATRIX_TYPES[dtype][1]]

    def value(self, c):
        return self.pool[c % len(self.pool)]

    def new_matrix(self, ns, label):
        if self.alphabet is not None:
            return self.cls(taxon_namespace=ns, label=label, default_state_alphabet=self.alphabet)
        return self.cls(taxon_namespace=ns, label=label)


def build_matrix_obj(obj):
    import dendropy
    from dendropy.datamodel.charmatrixmodel import CharacterType
    ns, taxa = build_ns(obj)
    kit = Kit(obj["dtype"])
    m = kit.new_matrix(ns, obj.get("label"))
    rows = []
    for i, cells in ([] if obj.get("empty_ns") else obj["rows"]):
        m[taxa[i]] = [kit.value(c) for c in cells]
        rows.append(taxa[i])
    decorate(m, obj.get("mdec"))
    for sel, dec in obj.get("seqdec", []):
        if rows:
            decorate(m[rows[sel % len(rows)]], dec)
    for label, idx, dec in obj.get("subsets", []):
        decorate(m.new_character_subset(label, list(idx)), dec)
    for label, dec, cells, in_list in obj.get("ctypes", []):
        ct = CharacterType(label=label, state_alphabet=kit.alphabet if kit.alphabet is not None else getattr(kit.cls, "datatype_alphabet", None))
        decorate(ct, dec)
        if in_list:
            m.character_types.append(ct)
        for rsel, csel in cells:
            if rows:
                seq = m[rows[rsel % len(rows)]]
                if len(seq):
                    seq.set_character_type_at(csel % len(seq), ct)
    for rsel, csel, name, val in obj.get("cellann", []):
        if rows:
            seq = m[rows[rsel % len(rows)]]
            if len(seq):
                seq.annotations_at(csel % len(seq)).add_new(name, plain(val))
    return m, kit, taxa


def matrix_is_interesting(obj):
    return bool(has_decor(obj.get("mdec")) or any(has_decor(d) for _, d in obj.get("seqdec", [])) or obj.get("cellann")
                or any(has_decor(s[2]) for s in obj.get("subsets", [])) or any(has_decor(c[1]) for c in obj.get("ctypes", [])))


def build_namespace_obj(obj):
    ns, taxa = build_ns(obj, is_case_sensitive=obj.get("case_sensitive", False))
    if obj.get("label") is not None:
        ns.label = obj["label"]
    if obj.get("bitmasks_cached"):
        for t in list(ns._taxa):
            ns.taxon_bitmask(t)
    if obj.get("immutable"):
        ns.is_mutable = False
    return ns, taxa


# ---------------------------------------------------------------------------------------------------------------------
# shared oracle pieces
# ---------------------------------------------------------------------------------------------------------------------

def first_diff(a, b, path="$"):
    """Path and values of the first place two observations differ (for the failure message only)."""
    if type(a) is not type(b):
        return "%s: %r vs %r" % (path, a, b)
    if isinstance(a, dict):
        for k in sorted(set(a) | set(b)):
            if k not in a or k not in b:
                return "%s.%s: present on one side only" % (path, k)
            d = first_diff(a[k], b[k], "%s.%s" % (path, k))
            if d:
                return d
        return None
    if isinstance(a, list):
        if a and isinstance(a[0], str) and len(a) == 2 and not isinstance(a[1], (list, dict)):
            return None if a == b else "%s: %r vs %r" % (path, a, b)
        for k in range(min(len(a), len(b))):
            d = first_diff(a[k], b[k], "%s[%d]" % (path, k))
            if d:
                return d
        if len(a) != len(b):
            return "%s: lengths %d vs %d (%r vs %r)" % (path, len(a), len(b), a[min(len(a), len(b)):][:2], b[min(len(a), len(b)):][:2])
        return None
    return None if a == b else "%s: %r vs %r" % (path, a, b)


def same(ctx, a, b, clause, key, tag):
    return ctx.check(a == b, clause, key, lambda: "%s: %s" % (tag, (first_diff(a, b) or "")[:600]))


def patch_label(state, owner_tag, value=("str", "L2")):
    """Copy of an Observer.state() dict as it must look after `label=` was given to the copy constructor: the label
    attribute and the value read by annotations bound to the owner's label."""
    value = list(value)
    out = dict(state)
    out["attrs"] = [[k, (value if k == "_label" else v)] for k, v in state["attrs"]]
    items = []
    for a in state["ann"]["items"]:
        if a["bound"] == [owner_tag, ["str", "label"]]:
            a = dict(a, value=value)
        items.append(a)
    out["ann"] = dict(state["ann"], items=items)
    return out


def make_copy(ctx, kind, src, route, case, foreign=None):
    cls = type(src)
    key = "C12.copy:%s:%s" % (kind, route)
    if route == "deepcopy":
        f = lambda: pycopy.deepcopy(src)
    elif route == "copy":
        f = lambda: pycopy.copy(src)
    elif route in ("clone0", "clone1", "clone2"):
        f = lambda: src.clone(int(route[-1]))
    elif route == "ctor":
        f = lambda: cls(src)
    elif route == "ctor_label":
        f = lambda: cls(src, label="L2")
    elif route == "ctor_ns":
        f = lambda: cls(src, taxon_namespace=foreign)
    elif route == "extract":
        f = lambda: src.extract_tree(suppress_unifurcations=case["su"],
                                     extraction_source_reference_attr_name="extraction_source" if case["esr"] else None)
    else:
        raise runner.HarnessError("unknown route %r" % route)
    return ctx.call(key, f)


def identity_clause(ctx, kind, route, src, cp, allowed_root, tag, skip=(), must_share=()):
    """(2) the mutable objects reachable from both sides are exactly those reachable from `allowed_root` (None: none)."""
    S = reach(src, skip)
    C = reach(cp, skip)
    common = set(S) & set(C)
    allowed = set(reach(allowed_root)) if allowed_root is not None else set()
    bad = common - allowed
    ctx.check(not bad, "no_mutable_part_shared_beyond_documented_depth", "C12.identity:%s:%s" % (kind, route),
              lambda: "%s: %s" % (tag, describe_shared(bad, S, C)))
    if must_share:
        # scoped depth: the copy holds no Taxon (or namespace) object other than the shared ones
        from dendropy.datamodel import taxonmodel
        ok_ids = set(id(x) for x in must_share)
        strangers = [x for x, _ in C.values() if isinstance(x, (taxonmodel.Taxon, taxonmodel.TaxonNamespace)) and id(x) not in ok_ids and x is not cp]
        ctx.check(not strangers, "scoped_copy_holds_only_the_shared_taxa", "C12.shared:%s:%s" % (kind, route),
                  lambda: "%s: the copy reaches %d taxon / namespace objects that are not the source namespace or its members, e.g. %r at copy%s" % (
                      tag, len(strangers), strangers[0], C[id(strangers[0])][1][6:]))
    missing = [x for x in must_share if id(x) not in C]
    ctx.check(not missing, "documented_shared_parts_are_shared", "C12.shared:%s:%s" % (kind, route),
              lambda: "%s: %d documented-shared objects (namespace / taxa) are not reachable from the copy, e.g. %r" % (
                  tag, len(missing), missing[0]))
    return len(S), len(C)


def foreign_contract(ctx, kind, route, src_ns, foreign, foreign_before, tag):
    """Copy constructor with taxon_namespace=: taxa mapped by label into the given namespace (reused or created)."""
    key = "C12.foreign_ns:%s" % kind
    now = list(foreign._taxa)
    ctx.check(now[:len(foreign_before)] == foreign_before and all(a is b for a, b in zip(now, foreign_before)),
              "foreign_namespace_keeps_its_members", key, tag)
    labels = [t._label for t in now]
    want = set(t._label for t in src_ns._taxa)
    have_before = set(t._label for t in foreign_before)
    ctx.check(len(labels) == len(set(labels)) and set(labels) == (have_before | want), "foreign_namespace_gains_exactly_missing_labels",
              key, lambda: "%s: foreign namespace now %r, before %r, source labels %r" % (tag, labels, sorted(have_before), sorted(want)))
    src_ids = set(id(t) for t in src_ns._taxa)
    ctx.check(not any(id(t) in src_ids for t in now), "foreign_namespace_holds_no_source_taxon", key, tag)


def static_annotations(holders, bound=False):
    out = []
    for h in holders:
        aset = getattr(h, "__dict__", {}).get("_annotations")
        if aset is None:
            continue
        for a in list(aset._item_list):
            if bool(a.is_attribute) == bound:
                out.append((h, a))
    return out


SENTINELS = {"length": 123.25, "label": "SENTINEL", "weight": 7.5}


def mutate_bound(ctx, holders, sel, tag, kind):
    """(4) change the attribute behind a bound annotation of this side; the annotation must read the new value and its
    owner must be one of this side's own objects."""
    cands = static_annotations(holders, bound=True)
    if not cands:
        return False
    h, a = cands[sel % len(cands)]
    owner, attr = a._value
    ctx.check(any(owner is x for x in holders), "bound_annotation_targets_own_side", "C12.bound_target:" + kind,
              lambda: "%s: annotation %r of %s is bound to %r, which is not part of the object it sits on" % (tag, a.name, type(h).__name__, owner))
    new = SENTINELS.get(attr, ["sentinel", sel])
    setattr(owner, attr, new)
    got = a.value
    ctx.check(got is new or got == new, "bound_annotation_follows_own_attribute", "C12.bound_follows:" + kind,
              lambda: "%s: after setting %s.%s = %r the annotation reads %r" % (tag, type(owner).__name__, attr, new, got))
    ctx.cls("bound_annotation_exercised")
    return True


def mutate_annotations(holders, kind, sel, sel2, val):
    """Shared by all object kinds: ann_value / ann_inplace / ann_add / ann_drop / ann_rename on one of `holders`."""
    cands = static_annotations(holders)
    if kind == "ann_inplace":
        c2 = [(h, a) for h, a in cands if isinstance(a._value, (list, dict))]
        if c2:
            h, a = c2[sel % len(c2)]
            if isinstance(a._value, list):
                a._value.append(77)
            else:
                a._value["added"] = 77
            return kind
        kind = "ann_value"
    if kind == "ann_value" and cands:
        h, a = cands[sel % len(cands)]
        a.value = ["changed", sel2 % 7]
        return kind
    if kind == "ann_rename" and cands:
        h, a = cands[sel % len(cands)]
        a.name = "renamed"
        return kind
    if kind == "ann_drop" and cands:
        h, a = cands[sel % len(cands)]
        h.annotations.remove(a)
        return kind
    h = holders[sel % len(holders)]
    h.annotations.add_new("added", plain(val))
    return "ann_add"


def mutate_tree(ctx, tree, mut, tag, label_suffix=""):
    """Apply one later change to `tree`.  Returns (kind actually applied, True when it acts on the namespace / a Taxon)."""
    import dendropy
    kind, sel, sel2, val, flag = mut["kind"], mut["sel"], mut["sel2"], mut["val"], mut["flag"]
    rt, problems = snapshot(tree)
    nodes = list(rt.obj)
    ns = tree._taxon_namespace
    nd = nodes[sel % len(nodes)]
    internals = [x for x in nodes if x._child_nodes]
    inner = [x for x in internals if x._parent_node is not None]
    nonroot = nodes[1:]
    holders = [tree] + nodes + [x._edge for x in nodes]
    if kind == "taxon_label" and ns._taxa:
        t = ns._taxa[sel % len(ns._taxa)]
        t.label = "ZZ%d%s" % (sel % 97, label_suffix)
        return kind, True
    if kind == "taxon_ann" and ns._taxa:
        t = ns._taxa[sel % len(ns._taxa)]
        cands = static_annotations([t])
        if cands and flag:
            cands[0][1].value = ["taxon-changed"]
        else:
            t.annotations.add_new("tx_added", plain(val))
        return kind, True
    if kind == "ns_add_taxon" and ns.is_mutable:
        ns.add_taxon(dendropy.Taxon(label="NEWTAX%d%s" % (sel % 97, label_suffix)))
        return kind, True
    if kind == "ns_label":
        ns.label = "nslabel2"
        return kind, True
    if kind == "add_child":
        nd.add_child(dendropy.Node(label="NEW", edge_length=1.5))
    elif kind == "new_child":
        nd.new_child(label="NEW2", edge_length=0.5)
    elif kind == "insert_child":
        nd.insert_child(sel2 % (len(nd._child_nodes) + 1), dendropy.Node(label="INS"))
    elif kind == "remove_child" and nonroot:
        c = nonroot[sel % len(nonroot)]
        c._parent_node.remove_child(c, suppress_unifurcations=flag)
    elif kind == "clear_children" and internals:
        internals[sel % len(internals)].clear_child_nodes()
    elif kind == "reparent" and len(nonroot) >= 2:
        c = nonroot[sel % len(nonroot)]
        below = set()
        stack = [c]
        while stack:
            x = stack.pop()
            below.add(id(x))
            stack.extend(x._child_nodes)
        targets = [x for x in nodes if id(x) not in below and x is not c._parent_node]
        if targets:
            p = targets[sel2 % len(targets)]
            c._parent_node.remove_child(c)
            p.add_child(c)
        else:
            kind = "edge_length"
            nd._edge.length = 99.5
    elif kind == "reverse_children" and internals:
        p = internals[sel % len(internals)]
        p.set_child_nodes(list(reversed(p._child_nodes)))
    elif kind == "node_label":
        nd.label = "RELABELLED"
    elif kind == "edge_label":
        nd._edge.label = "EL"
    elif kind == "node_taxon":
        nd.taxon = None if nd.taxon is not None else (ns._taxa[sel2 % len(ns._taxa)] if ns._taxa else None)
    elif kind in ("ann_value", "ann_inplace", "ann_add", "ann_drop", "ann_rename"):
        kind = mutate_annotations(holders, kind, sel, sel2, val)
    elif kind == "bound_attr" and mutate_bound(ctx, holders, sel, tag, "tree"):
        pass
    elif kind == "comment":
        holders[sel % len(holders)].comments.append("later comment")
    elif kind == "extra_inplace" and [h for h in holders for k in ("x0", "x1", "b0", "b1") if isinstance(vars(h).get(k), list)]:
        c = [(h, k) for h in holders for k in ("x0", "x1", "b0", "b1") if isinstance(vars(h).get(k), list)]
        h, k = c[sel % len(c)]
        getattr(h, k).append(55)
    elif kind in ("extra_set", "extra_inplace"):
        kind = "extra_set"
        holders[sel % len(holders)].x9 = [1, 2]
    elif kind == "tree_label":
        tree.label = "relabelled tree"
    elif kind == "tree_weight":
        tree.weight = 0.125
    elif kind == "tree_rooting":
        tree.is_rooted = {True: False, False: None, None: True}[tree._is_rooted]
    elif kind in HIGH_LEVEL:
        try:
            if kind == "encode":
                tree.encode_bipartitions(suppress_unifurcations=flag, collapse_unrooted_basal_bifurcation=bool(sel & 1),
                                         is_bipartitions_mutable=bool(sel & 2))
            elif kind == "reroot" and inner:
                tree.reroot_at_node(inner[sel % len(inner)], update_bipartitions=flag)
            elif kind == "prune" and len([x for x in nodes if not x._child_nodes and x.taxon is not None]) >= 2:
                lv = [x for x in nodes if not x._child_nodes and x.taxon is not None]
                tree.prune_taxa_with_labels([lv[sel % len(lv)].taxon.label], update_bipartitions=flag)
            elif kind == "ladderize":
                tree.ladderize(ascending=flag)
            elif kind == "scale_edges" and any(x._edge.length for x in nodes):
                tree.scale_edges(2.0)
            elif kind == "suppress_unifurcations":
                tree.suppress_unifurcations(update_bipartitions=flag)
            elif kind == "collapse_edge" and inner:
                inner[sel % len(inner)]._edge.collapse()
            else:
                kind = "edge_length"
                nd._edge.length = 99.5 if nd._edge.length != 99.5 else 98.5
        except Exception as e:
            if not runner.exc_in_dendropy(e):
                raise
            ctx.cls("mutator_raised:" + kind)
    else:
        kind = "edge_length"
        nd._edge.length = 99.5 if nd._edge.length != 99.5 else 98.5
    return kind, False


# ---------------------------------------------------------------------------------------------------------------------
# sub-check: one tree
# ---------------------------------------------------------------------------------------------------------------------

def observe_tree(tree, roster, mode="index", thin=False, skip=()):
    o = Observer(roster, taxon_by=mode, skip_attrs=skip)
    ns = tree._taxon_namespace
    nsc = o.ns_container(ns)
    main = o.tree_thin(tree) if thin else o.tree_full(tree)
    return {"main": main, "nsc": nsc, "nstaxa": o.ns_taxa(ns)}


def tree_depth(route):
    return DEPTH.get(route, "scoped")


def check_tree(ctx, case):
    import dendropy
    obj, route, mut = case["obj"], case["route"], case["mut"]
    depth = tree_depth(route)
    src = build_tree_obj(obj)
    ns = src._taxon_namespace
    n = shapes.n_leaves(obj["spec"])
    has_unif = any(len(s["ch"]) == 1 for s in shapes.spec_nodes(obj["spec"]))
    if route == "extract" and has_unif:
        case = dict(case, su=False)
    skip = ("extraction_source",) if depth == "thin" else ()
    foreign = build_foreign(case["foreign"], n) if depth == "foreign" else None
    foreign_before = list(foreign._taxa) if foreign is not None else None
    roster_s = list(ns._taxa)
    labels_at_copy = label_classes(ns)
    tag = "tree %s%s%s via %s" % (shapes.spec_to_newick(obj["spec"]), " [encoded]" if obj.get("enc") else "",
                                 " [annotated]" if tree_is_interesting(obj) else "", route)
    pre = observe_tree(src, roster_s)
    if pre["main"]["problems"]:
        raise runner.HarnessError("source malformed %r" % pre["main"]["problems"])
    cp = make_copy(ctx, "tree", src, route, case, foreign)
    K = "tree:" + route
    ctx.check(isinstance(cp, dendropy.Tree) and cp is not src, "copy_is_a_new_tree", "C12.new_object:" + K, tag)
    same(ctx, observe_tree(src, roster_s), pre, "copying_leaves_source_unchanged", "C12.source_unchanged:" + K, tag)
    cns = cp._taxon_namespace
    # --- namespace at the documented depth
    if depth in ("scoped", "thin"):
        ctx.check(cns is ns, "scoped_copy_keeps_the_namespace", "C12.namespace:" + K, tag)
    elif depth == "deep":
        ctx.check(cns is not ns and isinstance(cns, dendropy.TaxonNamespace), "deep_copy_has_its_own_namespace", "C12.namespace:" + K, tag)
    else:
        ctx.check(cns is foreign, "copy_uses_the_given_namespace", "C12.namespace:" + K, tag)
        foreign_contract(ctx, "tree", route, ns, foreign, foreign_before, tag)
    roster_c = list(cns._taxa)
    # --- (1) equality of observations
    if depth in ("deep", "scoped"):
        got = observe_tree(cp, roster_c)
        want = pre
        if route == "ctor_label":
            want = dict(pre, main=dict(pre["main"], tree=patch_label(pre["main"]["tree"], ["tree", 0])))
        same(ctx, got["main"], want["main"], "copy_equals_source", "C12.equal:" + K, tag)
        same(ctx, got["nsc"], want["nsc"], "copy_namespace_equals_source_namespace", "C12.equal_ns:" + K, tag)
        same(ctx, got["nstaxa"], want["nstaxa"], "copy_taxa_equal_source_taxa", "C12.equal_taxa:" + K, tag)
    elif depth == "foreign":
        got = observe_tree(cp, roster_c, mode="label")["main"]
        want = observe_tree(src, roster_s, mode="label")["main"]
        same(ctx, got, want, "copy_equals_source_with_taxa_mapped_by_label", "C12.equal:" + K, tag)
        for nd in snapshot(cp)[0].obj:
            if nd.taxon is not None:
                ctx.check(any(nd.taxon is t for t in roster_c), "copy_taxa_belong_to_the_given_namespace", "C12.foreign_ns:tree", tag)
        if obj.get("enc"):
            # observed, not asserted: the bit values are copied verbatim although the foreign namespace numbers its taxa
            # differently (the statement lists structure, labels, lengths, rooting, annotations, sequences)
            rt2 = snapshot(cp)[0]
            acc = cns._taxon_accession_index_map
            stale = False
            for i in rt2.nodes():
                wantmask = 0
                for j in rt2.leaves(i):
                    tx = rt2.obj[j].taxon
                    if tx is not None:
                        wantmask |= 1 << acc[tx]
                b = rt2.obj[i]._edge._bipartition
                if b is not None and b._leafset_bitmask != wantmask:
                    stale = True
            ctx.cls("foreign_ns:encoding_%s" % ("stale_for_new_namespace" if stale else "still_valid"))
    else:
        got = observe_tree(cp, roster_c, thin=True, skip=skip)["main"]
        want = observe_tree(src, roster_s, thin=True)["main"]
        same(ctx, got, want, "extracted_tree_equals_source_structure", "C12.equal:" + K, tag)
        cnodes = list(snapshot(cp)[0].obj)
        snodes = list(snapshot(src)[0].obj)
        for k, nd in enumerate(cnodes):
            bare = all(not vars(x).get("_annotations") and not x.comments for x in (nd, nd._edge))
            ctx.check(bare, "extraction_copies_no_annotations_or_comments", "C12.extract_thin", tag)
            if case["esr"] and len(cnodes) == len(snodes):
                ctx.check(getattr(nd, "extraction_source", None) is snodes[k], "extraction_source_is_the_source_node",
                          "C12.extraction_source", tag)
            elif not case["esr"]:
                ctx.check(not hasattr(nd, "extraction_source"), "no_back_reference_when_not_requested", "C12.extraction_source", tag)
        ctx.check(not vars(cp).get("_annotations") and not cp.comments, "extraction_copies_no_annotations_or_comments",
                  "C12.extract_thin", tag)
    # --- (2) identity disjointness
    if depth in ("scoped", "thin"):
        ns_, nc_ = identity_clause(ctx, "tree", route, src, cp, ns, tag, skip, must_share=[ns] + roster_s)
    else:
        ns_, nc_ = identity_clause(ctx, "tree", route, src, cp, None, tag, skip)
    ctx.notes.setdefault("max", {})
    ctx.notes["max"]["objects_walked_per_side"] = max(ctx.notes["max"].get("objects_walked_per_side", 0), ns_, nc_)
    # --- (3)+(4) a later change of one side is invisible through the other
    side = mut["side"]
    mobj, mroster, oobj, oroster = (src, roster_s, cp, roster_c) if side == "src" else (cp, roster_c, src, roster_s)
    before = observe_tree(oobj, oroster, skip=skip)
    mbefore = observe_tree(mobj, mroster, skip=skip)
    applied, nslevel = mutate_tree(ctx, mobj, mut, tag + " then %s on %s" % (mut["kind"], side))
    after = observe_tree(oobj, oroster, skip=skip)
    mtag = "%s; then %s (sel=%d) on the %s" % (tag, applied, mut["sel"], "source" if side == "src" else "copy")
    KM = "C12.independent:%s:%s" % (K, applied)
    same(ctx, after["main"], before["main"], "later_change_invisible_through_other_side", KM, mtag)
    if not (nslevel and depth in ("scoped", "thin")):
        same(ctx, after["nsc"], before["nsc"], "later_change_invisible_through_other_side", KM, mtag)
        same(ctx, after["nstaxa"], before["nstaxa"], "later_change_invisible_through_other_side", KM, mtag)
    else:
        ctx.cls("shared_taxon_change_visible_by_design")
    effective = observe_tree(mobj, mroster, skip=skip) != mbefore
    ctx.cls("mutation_effective" if effective else "mutation_without_effect")
    ctx.cls("tree_route:" + route)
    for c in labels_at_copy:
        ctx.cls("tree_labels:" + c)
    ctx.cls("tree_mut:" + applied)
    if applied != mut["kind"]:
        ctx.cls("fallback_from:tree:" + mut["kind"])
    ctx.cls("side:" + side)
    if obj.get("enc"):
        ctx.cls("tree_encoded")
    if obj.get("empty_ns"):
        ctx.cls("tree_special:namespace_empty_at_copy_time")
    if obj.get("extracted"):
        ctx.cls("tree_special:source_is_an_extracted_tree(%s)" % ("with_taxa" if obj["extracted"]["with_taxa"] else "whole"))
    if tree_is_interesting(obj):
        ctx.nontrivial(["tree", obj, route, case.get("foreign"), case.get("su"), case.get("esr"), mut])
    ctx.sample("tree:" + route, {"newick": shapes.spec_to_newick(obj["spec"]), "tdec": obj["tdec"], "enc": obj.get("enc"),
                                 "route": route, "mut": mut})



# ---------------------------------------------------------------------------------------------------------------------
# shallow routes (clone(0) / copy.copy of TreeList, CharacterMatrix, TaxonNamespace; TaxonNamespace(ns)):
# documented as "members are references"; asserted: new container with the same members + independent annotations
# ---------------------------------------------------------------------------------------------------------------------

def annotation_objects(x):
    out = []
    stack = [x]
    while stack:
        y = stack.pop()
        aset = getattr(y, "__dict__", {}).get("_annotations")
        if aset is not None:
            out.append(aset)
            for a in aset._item_list:
                out.append(a)
                stack.append(a)
    return out


def shallow_annotations(ctx, kind, route, src, cp, owner_tag, tag):
    """Annotations of a shallow copy: equal (name, static value / bound attribute name) lists, no shared AnnotationSet
    or Annotation object, set targeted at the copy, bound annotations re-targeted to the copy."""
    K = "%s:%s" % (kind, route)
    def brief(x):
        o = Observer([])
        o.tag(x, owner_tag)
        out = []
        for a in o.annotations(x)["items"]:
            out.append([a["name"], a["is_attribute"], a["bound"], None if a["bound"] else a["value"], a["hint"], a["prefix"],
                        a["namespace"], a["ref"], a["hidden"], a["fmt"], a["sub"]])
        return o.annotations(x)["target"], out
    ts, a_s = brief(src)
    tc, a_c = brief(cp)
    same(ctx, a_c, a_s, "shallow_copy_has_equal_annotations", "C12.equal_annotations:" + K, tag)
    ctx.check(tc == "owner", "annotation_set_of_copy_targets_the_copy", "C12.annotation_target:" + K, tag)
    ids = set(id(x) for x in annotation_objects(src))
    shared = [x for x in annotation_objects(cp) if id(x) in ids]
    ctx.check(not shared, "shallow_copy_has_independent_annotation_objects", "C12.identity:" + K,
              lambda: "%s: %d annotation objects shared, e.g. %r" % (tag, len(shared), shared[0]))


# ---------------------------------------------------------------------------------------------------------------------
# sub-check: tree list
# ---------------------------------------------------------------------------------------------------------------------

def list_depth(route):
    return "shallow" if route in ("clone0", "copy") else DEPTH[route]


def observe_list(tl, roster, mode="index"):
    o = Observer(roster, taxon_by=mode)
    ns = tl._taxon_namespace
    nsc = o.ns_container(ns)
    o.tag(tl, ["treelist"])
    trees = list(tl._trees)
    for j, t in enumerate(trees):
        o.register_tree(t, j)
    main = {"list": o.state(tl), "trees": [o.tree_full(t, j) for j, t in enumerate(trees)]}
    return {"main": main, "nsc": nsc, "nstaxa": o.ns_taxa(ns)}


def taxa_by_index(ns):
    out = {}
    for t in ns._taxa:
        lab = t._label
        if isinstance(lab, str) and lab.startswith("T") and lab[1:].isdigit():
            out[int(lab[1:])] = t
    return out


def mutate_list(ctx, tl, case, tag, taxa=None):
    mut = case["mut"]
    kind, sel, sel2, val, flag = mut["kind"], mut["sel"], mut["sel2"], mut["val"], mut["flag"]
    ns = tl._taxon_namespace
    k = len(tl._trees)
    def newtree():
        return build_tree_obj(case["newtree"], ns, taxa if taxa is not None else taxa_by_index(ns),
                              empty_ns=bool(case["obj"].get("empty_ns")))
    if kind == "tree" and k:
        applied, nslevel = mutate_tree(ctx, tl._trees[sel2 % k], case["tmut"], tag)
        return "tree." + applied, nslevel
    if kind == "taxon_label" and ns._taxa:
        ns._taxa[sel % len(ns._taxa)].label = "ZZ%d" % (sel % 97)
        return kind, True
    if kind == "append_tree":
        tl.append(newtree())
    elif kind == "insert_tree":
        tl.insert(sel % (k + 1), newtree())
    elif kind == "remove_tree" and k:
        if flag:
            tl.remove(tl._trees[sel % k])
        else:
            del tl[sel % k]
    elif kind == "setitem_tree" and k:
        tl[sel % k] = newtree()
    elif kind in ("list_ann_value", "list_ann_add"):
        kind = "list_" + mutate_annotations([tl], kind[5:], sel, sel2, val)
    elif kind == "list_comment":
        tl.comments.append("later comment")
    elif kind == "list_bound_attr" and mutate_bound(ctx, [tl], sel, tag, "treelist"):
        pass
    else:
        kind = "list_label"
        tl.label = "relabelled list"
    return kind, False


def check_list(ctx, case):
    import dendropy
    obj, route = case["obj"], case["route"]
    depth = list_depth(route)
    src, taxa_s = build_treelist_obj(obj)
    ns = src._taxon_namespace
    foreign = build_foreign(case["foreign"], obj["n"]) if depth == "foreign" else None
    foreign_before = list(foreign._taxa) if foreign is not None else None
    roster_s = list(ns._taxa)
    labels_at_copy = label_classes(ns)
    interesting = has_decor(obj.get("ldec")) or any(tree_is_interesting(t) for t in obj["trees"])
    tag = "tree list [%s]%s via %s" % (" ".join(shapes.spec_to_newick(t["spec"]) for t in obj["trees"]),
                                       " [annotated/encoded]" if interesting else "", route)
    K = "treelist:" + route
    pre = observe_list(src, roster_s)
    cp = make_copy(ctx, "treelist", src, route, case, foreign)
    ctx.check(isinstance(cp, dendropy.TreeList) and cp is not src and cp._trees is not src._trees, "copy_is_a_new_list",
              "C12.new_object:" + K, tag)
    same(ctx, observe_list(src, roster_s), pre, "copying_leaves_source_unchanged", "C12.source_unchanged:" + K, tag)
    cns = cp._taxon_namespace
    if depth in ("scoped", "shallow"):
        ctx.check(cns is ns, "scoped_copy_keeps_the_namespace", "C12.namespace:" + K, tag)
    elif depth == "deep":
        ctx.check(cns is not ns, "deep_copy_has_its_own_namespace", "C12.namespace:" + K, tag)
    else:
        ctx.check(cns is foreign and all(t._taxon_namespace is foreign for t in cp._trees), "copy_uses_the_given_namespace",
                  "C12.namespace:" + K, tag)
        foreign_contract(ctx, "treelist", route, ns, foreign, foreign_before, tag)
    roster_c = list(cns._taxa)
    if depth == "shallow":
        ctx.check(len(cp._trees) == len(src._trees) and all(a is b for a, b in zip(cp._trees, src._trees)),
                  "shallow_copy_lists_the_same_trees", "C12.equal:" + K, tag)
        ctx.check(cp._label == src._label, "shallow_copy_keeps_label", "C12.equal:" + K, tag)
        shallow_annotations(ctx, "treelist", route, src, cp, ["treelist"], tag)
    else:
        if depth == "foreign":
            got = observe_list(cp, roster_c, mode="label")
            want = observe_list(src, roster_s, mode="label")
        else:
            got = observe_list(cp, roster_c)
            want = pre
        wm = want["main"]
        if route == "ctor_label":
            wm = dict(wm, list=patch_label(wm["list"], ["treelist"]))
        same(ctx, got["main"], wm, "copy_equals_source", "C12.equal:" + K, tag)
        if depth != "foreign":
            same(ctx, got["nsc"], want["nsc"], "copy_namespace_equals_source_namespace", "C12.equal_ns:" + K, tag)
            same(ctx, got["nstaxa"], want["nstaxa"], "copy_taxa_equal_source_taxa", "C12.equal_taxa:" + K, tag)
        ctx.check(all(t._taxon_namespace is cns for t in cp._trees), "member_trees_use_the_list_namespace", "C12.namespace:" + K, tag)
        if depth == "scoped":
            identity_clause(ctx, "treelist", route, src, cp, ns, tag, must_share=[ns] + roster_s)
        else:
            identity_clause(ctx, "treelist", route, src, cp, None, tag)
    # later change
    mut = case["mut"]
    if depth == "shallow" and mut["kind"] not in LIST_SHALLOW_MUTS:
        mut = dict(mut, kind=LIST_SHALLOW_MUTS[mut["sel"] % len(LIST_SHALLOW_MUTS)])
        case = dict(case, mut=mut)
    side = mut["side"]
    mobj, mroster, oobj, oroster = (src, roster_s, cp, roster_c) if side == "src" else (cp, roster_c, src, roster_s)
    before = observe_list(oobj, oroster)
    taxa_m = None
    if depth != "foreign" and len(mroster) == len(roster_s):
        # the copy lists its taxa in the source's order: taxon index -> the mutated side's own Taxon object, by position
        pos = dict((id(t), p) for p, t in enumerate(roster_s))
        taxa_m = dict((i, mroster[pos[id(t)]]) for i, t in taxa_s.items())
    applied, nslevel = mutate_list(ctx, mobj, case, tag, taxa_m)
    after = observe_list(oobj, oroster)
    mtag = "%s; then %s (sel=%d) on the %s" % (tag, applied, mut["sel"], "source" if side == "src" else "copy")
    KM = "C12.independent:%s:%s" % (K, applied)
    same(ctx, after["main"], before["main"], "later_change_invisible_through_other_side", KM, mtag)
    if not (nslevel and depth in ("scoped", "shallow")):
        same(ctx, after["nsc"], before["nsc"], "later_change_invisible_through_other_side", KM, mtag)
        same(ctx, after["nstaxa"], before["nstaxa"], "later_change_invisible_through_other_side", KM, mtag)
    else:
        ctx.cls("shared_taxon_change_visible_by_design")
    ctx.cls("list_route:" + route)
    for c in labels_at_copy:
        ctx.cls("list_labels:" + c)
    ctx.cls("list_mut:" + applied)
    if applied != mut["kind"] and not applied.startswith("tree."):
        ctx.cls("fallback_from:list:" + mut["kind"])
    ctx.cls("list_size:%d" % len(obj["trees"]))
    if obj.get("empty_ns"):
        ctx.cls("list_special:namespace_empty_at_copy_time")
    for t in obj["trees"]:
        if t.get("pair"):
            ctx.cls("list_special:extract_%s_its_source_tree" % ("before" if t["pair"]["before"] else "after"))
    if interesting:
        ctx.nontrivial(["treelist", obj, route, case.get("foreign"), mut, case["tmut"] if applied.startswith("tree.") else None])
    ctx.sample("treelist:" + route, {"trees": [shapes.spec_to_newick(t["spec"]) for t in obj["trees"]], "ldec": obj["ldec"],
                                     "route": route, "mut": mut})


# ---------------------------------------------------------------------------------------------------------------------
# sub-check: character matrix
# ---------------------------------------------------------------------------------------------------------------------

def observe_matrix(m, roster, mode="index"):
    o = Observer(roster, taxon_by=mode)
    ns = m._taxon_namespace
    nsc = o.ns_container(ns)
    return {"main": o.matrix_full(m), "nsc": nsc, "nstaxa": o.ns_taxa(ns)}


def mutate_matrix(ctx, m, kit, mut, tag):
    kind, sel, sel2, val, flag = mut["kind"], mut["sel"], mut["sel2"], mut["val"], mut["flag"]
    ns = m._taxon_namespace
    tsm = m._taxon_sequence_map
    rows = [t for t in ns._taxa if t in tsm]
    seqs = [tsm[t] for t in rows]
    nonempty = [s for s in seqs if len(s._character_values)]
    subsets = list(m.character_subsets.values())
    ctypes = []
    for ct in list(m.character_types) + [c for s in seqs for c in s._character_types]:
        if ct is not None and not any(ct is x for x in ctypes):
            ctypes.append(ct)
    cellsets = [a for s in seqs for a in s._character_annotations if a is not None]
    if kind == "taxon_label" and ns._taxa:
        ns._taxa[sel % len(ns._taxa)].label = "ZZ%d" % (sel % 97)
        return kind, True
    if kind == "cell_set" and nonempty:
        s = nonempty[sel % len(nonempty)]
        i = sel2 % len(s._character_values)
        new = kit.value(sel)
        if new is s._character_values[i] or new == s._character_values[i]:
            new = kit.value(sel + 1)
        s[i] = new
    elif kind == "seq_append" and seqs:
        seqs[sel % len(seqs)].append(kit.value(sel2))
    elif kind == "seq_del_cell" and nonempty:
        s = nonempty[sel % len(nonempty)]
        del s[sel2 % len(s._character_values)]
    elif kind == "del_sequence" and rows:
        del m[rows[sel % len(rows)]]
    elif kind == "new_sequence" and [t for t in ns._taxa if t not in tsm]:
        free = [t for t in ns._taxa if t not in tsm]
        m.new_sequence(free[sel % len(free)], [kit.value(sel2), kit.value(sel2 + 3)])
    elif kind in ("seq_ann_value", "seq_ann_add") and seqs:
        kind = "seq_" + mutate_annotations(seqs, kind[4:], sel, sel2, val)
    elif kind in ("m_ann_value", "m_ann_add"):
        kind = "m_" + mutate_annotations([m], kind[2:], sel, sel2, val)
    elif kind == "m_comment":
        m.comments.append("later comment")
    elif kind == "m_bound_attr" and mutate_bound(ctx, [m], sel, tag, "matrix"):
        pass
    elif kind == "subset_add_index" and subsets:
        subsets[sel % len(subsets)].character_indices.add(99)
    elif kind == "subset_ann" and subsets:
        subsets[sel % len(subsets)].annotations.add_new("later", plain(val))
    elif kind == "new_subset":
        m.new_character_subset("later_subset", [0, sel2 % 5])
    elif kind == "del_subset" and subsets:
        del m.character_subsets[subsets[sel % len(subsets)].label]
    elif kind == "ctype_label" and ctypes:
        ctypes[sel % len(ctypes)].label = "CTL"
    elif kind == "cell_ann_value" and cellsets:
        cellsets[sel % len(cellsets)].add_new("later_cell", plain(val))
    else:
        kind = "m_label"
        m.label = "relabelled matrix"
    return kind, False


def alphabets_of(m):
    return list(getattr(m, "state_alphabets", []) or []), getattr(m, "_default_state_alphabet", None)


def check_matrix(ctx, case):
    import dendropy
    obj, route = case["obj"], case["route"]
    depth = list_depth(route)
    src, kit, _ = build_matrix_obj(obj)
    ns = src._taxon_namespace
    foreign = build_foreign(case["foreign"], obj["n"]) if depth == "foreign" else None
    foreign_before = list(foreign._taxa) if foreign is not None else None
    roster_s = list(ns._taxa)
    labels_at_copy = label_classes(ns)
    interesting = matrix_is_interesting(obj)
    tag = "%s matrix %r%s via %s" % (obj["dtype"], obj["rows"], " [annotated]" if interesting else "", route)
    K = "matrix:" + route
    pre = observe_matrix(src, roster_s)
    cp = make_copy(ctx, "matrix", src, route, case, foreign)
    ctx.check(type(cp) is type(src) and cp is not src and cp._taxon_sequence_map is not src._taxon_sequence_map,
              "copy_is_a_new_matrix_of_the_same_type", "C12.new_object:" + K, tag)
    same(ctx, observe_matrix(src, roster_s), pre, "copying_leaves_source_unchanged", "C12.source_unchanged:" + K, tag)
    cns = cp._taxon_namespace
    if depth in ("scoped", "shallow"):
        ctx.check(cns is ns, "scoped_copy_keeps_the_namespace", "C12.namespace:" + K, tag)
    elif depth == "deep":
        ctx.check(cns is not ns, "deep_copy_has_its_own_namespace", "C12.namespace:" + K, tag)
    else:
        ctx.check(cns is foreign, "copy_uses_the_given_namespace", "C12.namespace:" + K, tag)
        foreign_contract(ctx, "matrix", route, ns, foreign, foreign_before, tag)
    roster_c = list(cns._taxa)
    if depth == "shallow":
        a, b = cp._taxon_sequence_map, src._taxon_sequence_map
        ctx.check(len(a) == len(b) and all(t in a and a[t] is b[t] for t in b), "shallow_copy_maps_the_same_sequences",
                  "C12.equal:" + K, tag)
        ctx.check(cp._label == src._label, "shallow_copy_keeps_label", "C12.equal:" + K, tag)
        shallow_annotations(ctx, "matrix", route, src, cp, ["matrix"], tag)
    else:
        if depth == "foreign":
            got = observe_matrix(cp, roster_c, mode="label")
            want = observe_matrix(src, roster_s, mode="label")
            # (in label mode rows and character types are listed in label order: the namespace order is the foreign one's own)
        else:
            got = observe_matrix(cp, roster_c)
            want = pre
        wm = want["main"]
        if route == "ctor_label":
            wm = dict(wm, matrix=patch_label(wm["matrix"], ["matrix"]))
        same(ctx, got["main"], wm, "copy_equals_source", "C12.equal:" + K, tag)
        if depth != "foreign":
            same(ctx, got["nsc"], want["nsc"], "copy_namespace_equals_source_namespace", "C12.equal_ns:" + K, tag)
            same(ctx, got["nstaxa"], want["nstaxa"], "copy_taxa_equal_source_taxa", "C12.equal_taxa:" + K, tag)
        sa, da = alphabets_of(src)
        ca, dc = alphabets_of(cp)
        ctx.check(len(sa) == len(ca) and all(x is y for x, y in zip(sa, ca)) and da is dc, "copy_keeps_the_state_alphabets",
                  "C12.alphabets:" + K, lambda: "%s: source alphabets %r default %r; copy alphabets %r default %r" % (tag, sa, da, ca, dc))
        if depth == "scoped":
            identity_clause(ctx, "matrix", route, src, cp, ns, tag, must_share=[ns] + roster_s)
        else:
            identity_clause(ctx, "matrix", route, src, cp, None, tag)
    mut = case["mut"]
    if depth == "shallow" and mut["kind"] not in MATRIX_SHALLOW_MUTS:
        mut = dict(mut, kind=MATRIX_SHALLOW_MUTS[mut["sel"] % len(MATRIX_SHALLOW_MUTS)])
    side = mut["side"]
    mobj, mroster, oobj, oroster = (src, roster_s, cp, roster_c) if side == "src" else (cp, roster_c, src, roster_s)
    before = observe_matrix(oobj, oroster)
    applied, nslevel = mutate_matrix(ctx, mobj, kit, mut, tag)
    after = observe_matrix(oobj, oroster)
    mtag = "%s; then %s (sel=%d) on the %s" % (tag, applied, mut["sel"], "source" if side == "src" else "copy")
    KM = "C12.independent:%s:%s" % (K, applied)
    same(ctx, after["main"], before["main"], "later_change_invisible_through_other_side", KM, mtag)
    if not (nslevel and depth in ("scoped", "shallow")):
        same(ctx, after["nsc"], before["nsc"], "later_change_invisible_through_other_side", KM, mtag)
        same(ctx, after["nstaxa"], before["nstaxa"], "later_change_invisible_through_other_side", KM, mtag)
    else:
        ctx.cls("shared_taxon_change_visible_by_design")
    ctx.cls("matrix_route:" + route)
    for c in labels_at_copy:
        ctx.cls("matrix_labels:" + c)
    ctx.cls("matrix_mut:" + applied)
    if applied != mut["kind"]:
        ctx.cls("fallback_from:matrix:" + mut["kind"])
    ctx.cls("matrix_type:" + obj["dtype"])
    if obj.get("empty_ns"):
        ctx.cls("matrix_special:namespace_empty_at_copy_time")
    if interesting:
        ctx.nontrivial(["matrix", obj, route, case.get("foreign"), mut])
    ctx.sample("matrix:" + route, {"dtype": obj["dtype"], "rows": obj["rows"], "mdec": obj["mdec"], "route": route, "mut": mut})


# ---------------------------------------------------------------------------------------------------------------------
# sub-check: taxon namespace
# ---------------------------------------------------------------------------------------------------------------------

def ns_depth(route):
    return {"deepcopy": "deep", "clone2": "deep", "clone1": "identity"}.get(route, "shallow")


def observe_ns(ns, roster):
    o = Observer(roster)
    return {"nsc": o.ns_container(ns), "nstaxa": o.ns_taxa(ns)}


def mutate_ns(ctx, ns, mut, tag):
    import dendropy
    kind, sel, sel2, val, flag = mut["kind"], mut["sel"], mut["sel2"], mut["val"], mut["flag"]
    taxa = list(ns._taxa)
    if kind == "add_taxon" and ns.is_mutable:
        ns.add_taxon(dendropy.Taxon(label="NEWTAX%d" % (sel % 97)))
    elif kind == "remove_taxon" and taxa:
        ns.remove_taxon(taxa[sel % len(taxa)])
    elif kind == "taxon_label" and taxa:
        taxa[sel % len(taxa)].label = "ZZ%d" % (sel % 97)
    elif kind in ("ns_ann_value", "ns_ann_add"):
        kind = "ns_" + mutate_annotations([ns], kind[3:], sel, sel2, val)
    elif kind == "ns_comment":
        ns.comments.append("later comment")
    elif kind == "taxon_ann_value" and taxa:
        kind = "taxon_" + mutate_annotations([taxa[sel % len(taxa)]], "ann_value", sel, sel2, val)
    elif kind == "sort" and all(isinstance(t._label, str) for t in taxa):
        ns.sort(reverse=flag)
    elif kind == "reverse":
        ns.reverse()
    elif kind == "ns_bound_attr" and mutate_bound(ctx, [ns], sel, tag, "namespace"):
        pass
    elif kind == "taxon_bound_attr" and mutate_bound(ctx, taxa, sel, tag, "taxon"):
        pass
    else:
        kind = "ns_label"
        ns.label = "relabelled namespace"
    return kind


def check_ns(ctx, case):
    import dendropy
    obj, route, mut = case["obj"], case["route"], case["mut"]
    depth = ns_depth(route)
    src, _ = build_namespace_obj(obj)
    roster_s = list(src._taxa)
    labels_at_copy = label_classes(src)
    interesting = has_decor(obj.get("nsdec")) or any(has_decor(d) for _, d in obj.get("xdec", []))
    tag = "namespace %r%s via %s" % ([t._label for t in roster_s], " [annotated]" if interesting else "", route)
    K = "namespace:" + route
    pre = observe_ns(src, roster_s)
    cp = make_copy(ctx, "namespace", src, route, case)
    same(ctx, observe_ns(src, roster_s), pre, "copying_leaves_source_unchanged", "C12.source_unchanged:" + K, tag)
    ctx.cls("ns_route:" + route)
    for c in labels_at_copy:
        ctx.cls("ns_labels:" + c)
    if depth == "identity":
        ctx.check(cp is src, "namespace_scoped_copy_of_a_namespace_is_the_namespace", "C12.equal:" + K, tag)
        ctx.cls("namespace_scoped_copy_is_the_namespace_itself")
        return
    ctx.check(isinstance(cp, dendropy.TaxonNamespace) and cp is not src and cp._taxa is not src._taxa, "copy_is_a_new_namespace",
              "C12.new_object:" + K, tag)
    roster_c = list(cp._taxa)
    got = observe_ns(cp, roster_c)
    want_nsc = pre["nsc"]
    if route == "ctor_label":
        want_nsc = dict(patch_label(want_nsc, ["ns"]), **dict((k, v) for k, v in want_nsc.items() if k not in ("attrs", "ann")))
    same(ctx, got["nsc"], want_nsc, "copy_equals_source", "C12.equal:" + K, tag)
    same(ctx, got["nstaxa"], pre["nstaxa"], "copy_taxa_equal_source_taxa", "C12.equal_taxa:" + K, tag)
    if depth == "shallow":
        ctx.check(len(roster_c) == len(roster_s) and all(a is b for a, b in zip(roster_c, roster_s)),
                  "shallow_copy_holds_the_same_taxa", "C12.equal:" + K, tag)
        holder = list(roster_s)
        identity_clause(ctx, "namespace", route, src, cp, holder, tag, must_share=roster_s)
    else:
        identity_clause(ctx, "namespace", route, src, cp, None, tag)
    side = mut["side"]
    mobj, oobj, oroster = (src, cp, roster_c) if side == "src" else (cp, src, roster_s)
    before = observe_ns(oobj, oroster)
    applied = mutate_ns(ctx, mobj, mut, tag)
    after = observe_ns(oobj, oroster)
    mtag = "%s; then %s (sel=%d) on the %s" % (tag, applied, mut["sel"], "source" if side == "src" else "copy")
    KM = "C12.independent:%s:%s" % (K, applied)
    same(ctx, after["nsc"], before["nsc"], "later_change_invisible_through_other_side", KM, mtag)
    if depth == "shallow" and (mut["kind"] in NS_SHARED_TAXON_MUTS or applied.startswith("taxon_")):
        ctx.cls("shared_taxon_change_visible_by_design")
    else:
        same(ctx, after["nstaxa"], before["nstaxa"], "later_change_invisible_through_other_side", KM, mtag)
    ctx.cls("ns_mut:" + applied)
    if applied != mut["kind"]:
        ctx.cls("fallback_from:ns:" + mut["kind"])
    if interesting:
        ctx.nontrivial(["namespace", obj, route, mut])
    ctx.sample("namespace:" + route, {"n": obj["n"], "nsdec": obj["nsdec"], "xdec": obj["xdec"], "route": route, "mut": mut})


# ---------------------------------------------------------------------------------------------------------------------
# exhaustive part: every route x every mutation kind x both sides on one fixed annotated object of each kind
# ---------------------------------------------------------------------------------------------------------------------

def _leaf(t, length):
    return {"t": t, "lab": None, "len": length, "ch": []}


FIXED_TREE = {
    "kind": "tree",
    "spec": {"t": None, "lab": "root", "len": None, "ch": [
        {"t": 4, "lab": "n1", "len": 0.5, "ch": [_leaf(0, 1.0), _leaf(1, 2.0)]},
        {"t": None, "lab": None, "len": 0.25, "ch": [_leaf(2, 1.0), _leaf(3, 1.5)]}]},
    "lenpat": "dyadic", "rooted": True, "label": "fixed", "weight": 2.0, "elabels": [[2, "e2"], [4, "e4"]], "length_type": "float",
    "tdec": {"ann": [["color", "red"], ["size", [1, 2]]], "subann": [[0, "note", "sub"]], "bound": [["b0", [3, 4], False], ["weight", None, False]],
             "comments": ["tree comment"], "extra": [["x0", {"ref": 1}], ["x1", [7]]]},
    "ndec": [[1, {"ann": [["pop", 10]], "bound": [["b1", 5, False], ["label", None, False], ["length", None, True]], "comments": ["c"],
                  "extra": [["x0", {"ref": 4}]]}],
             [2, {"ann": [["note", {"k": 1}]], "extra": [["x1", [1, 2]]]}]],
    "edec": [[4, {"ann": [["x", 0.5]], "bound": [["length", None, False]], "comments": ["edge comment"]}]],
    "enc": {"mutable": False, "maps": True},
    "hist": {"extra": 2, "order": [4, 0, 1, 5, 2, 3], "removed": [], "sort": None},
    "nslabel": "taxa", "nsdec": {"ann": [["color", 1]], "bound": [["label", None, False]]},
    "xdec": [[0, {"ann": [["size", 3]], "bound": [["b0", 1, False]]}]],
}
FIXED_SMALL_TREE = {"kind": "tree", "spec": {"t": None, "lab": None, "len": None, "ch": [_leaf(0, 1.0), _leaf(2, 1.0), _leaf(1, None)]},
                    "lenpat": "partial", "rooted": None, "label": None, "weight": None, "tdec": {"ann": [["x", 1]]}, "ndec": [],
                    "edec": [], "enc": None}
_LIST_TREE = dict((k, v) for k, v in FIXED_TREE.items() if k not in ("hist", "nslabel", "nsdec", "xdec"))
FIXED_LIST = {"kind": "treelist", "n": 4, "hist": FIXED_TREE["hist"], "trees": [_LIST_TREE, FIXED_SMALL_TREE], "label": "trees",
              "ldec": {"ann": [["color", [1]], ["note", "n"]], "bound": [["b0", 2, False], ["label", None, False]], "comments": ["lc"],
                       "extra": [["x1", [5]]]},
              "xdec": FIXED_TREE["xdec"]}
FIXED_MATRIX = {"kind": "matrix", "dtype": "standard_abc", "n": 3, "hist": {"extra": 1, "order": [3, 0, 1, 2], "removed": [], "sort": None},
                "rows": [[0, [0, 1, 2, 3]], [2, [2, 2, 4, 0]]], "label": "M",
                "mdec": {"ann": [["color", [1]], ["note", "n"]], "bound": [["b0", 2, False], ["label", None, False]], "comments": ["mc"],
                         "extra": [["x1", [5]]]},
                "seqdec": [[0, {"ann": [["size", 1]], "bound": [["b1", [1], False]]}]],
                "subsets": [["s0", [0, 2], {"ann": [["x", 1]]}], ["s1", [], {}]],
                "ctypes": [["ct0", {"ann": [["pop", 2]]}, [[0, 1], [1, 1]], True], ["ct1", {}, [[0, 3]], False]],
                "cellann": [[0, 1, "color", "blue"], [1, 2, "note", [1]]],
                "xdec": [[0, {"ann": [["size", 3]]}]]}
FIXED_NS = {"kind": "namespace", "n": 3, "hist": {"extra": 2, "order": [3, 0, 4, 1, 2], "removed": [4], "sort": None}, "label": "taxa",
            "nsdec": {"ann": [["color", [1]], ["note", "n"]], "bound": [["b0", 2, False], ["label", None, False]], "comments": ["nc"],
                      "extra": [["x1", [5]]]},
            "xdec": [[0, {"ann": [["size", 3]], "bound": [["b0", 1, False]], "comments": ["tc"]}], [2, {"ann": [["note", [2]]]}]],
            "case_sensitive": False, "immutable": False, "bitmasks_cached": True}
# T1 becomes a second "T0", T3 becomes "t2" (equal to T2 in a case-insensitive namespace), the taxon on internal node n1 loses its label
FIXED_RELABEL = [[1, "dup", 0], [3, "case", 2], [4, "none", 4]]
FIXED_FOREIGN = {"have": [2, 0], "other": 1, "other_first": True, "case_sensitive": False}


def exhaustive_items(sels):
    items = []
    def mut(side, kind, sel):
        return {"side": side, "kind": kind, "sel": sel, "sel2": sel // 3 + 1, "val": [8, 9], "flag": bool(sel & 1)}
    for sel in sels:
        for side in ("src", "copy"):
            for route in TREE_ROUTES:
                for kind in TREE_MUTS:
                    items.append({"what": "tree", "route": route, "mut": mut(side, kind, sel)})
                    if route != "ctor_ns":
                        items.append({"what": "tree", "route": route, "mut": mut(side, kind, sel), "relabel": FIXED_RELABEL})
                for variant in ("empty_ns", "extracted_whole", "extracted_with_taxa"):
                    for kind in ("add_child", "remove_child", "edge_length", "bound_attr", "ns_add_taxon", "taxon_label", "encode"):
                        items.append({"what": "tree", "route": route, "mut": mut(side, kind, sel), "variant": variant})
            for route in LIST_ROUTES:
                for variant in ("empty_ns", "no_trees_empty_ns", "pair_before", "pair_after"):
                    for kind in ("append_tree", "list_label"):
                        items.append({"what": "treelist", "route": route, "mut": mut(side, kind, sel), "variant": variant})
                    for tkind in ("add_child", "remove_child", "edge_length"):
                        for tsel in (0, 3):
                            m2 = mut(side, "tree", sel)
                            m2["sel2"] = tsel // 3 + (sel % 2)
                            items.append({"what": "treelist", "route": route, "mut": m2, "tmut": mut(side, tkind, sel), "variant": variant})
            for route in MATRIX_ROUTES:
                for kind in ("m_label", "new_subset", "m_ann_value"):
                    items.append({"what": "matrix", "route": route, "mut": mut(side, kind, sel), "variant": "empty_ns"})
            for route in LIST_ROUTES:
                for kind in sorted(set(LIST_MUTS) - {"tree"}):
                    items.append({"what": "treelist", "route": route, "mut": mut(side, kind, sel)})
                for tkind in ("add_child", "remove_child", "edge_length", "ann_inplace", "bound_attr", "encode", "taxon_label", "comment"):
                    items.append({"what": "treelist", "route": route, "mut": mut(side, "tree", sel), "tmut": mut(side, tkind, sel)})
            for route in MATRIX_ROUTES:
                for kind in MATRIX_MUTS:
                    items.append({"what": "matrix", "route": route, "mut": mut(side, kind, sel)})
            for route in NS_ROUTES:
                for kind in NS_MUTS:
                    items.append({"what": "namespace", "route": route, "mut": mut(side, kind, sel)})
    return items


def check_exh(ctx, item):
    what, route = item["what"], item["route"]
    case = {"route": route, "mut": item["mut"], "foreign": FIXED_FOREIGN, "su": True, "esr": bool(item["mut"]["sel"] & 2)}
    variant = item.get("variant")
    if what == "tree":
        obj = dict(FIXED_TREE, relabel=item["relabel"]) if item.get("relabel") else FIXED_TREE
        if variant == "empty_ns":
            obj = dict(obj, empty_ns=True)
        elif variant:
            obj = dict(obj, extracted={"with_taxa": variant == "extracted_with_taxa", "mask": 0b1011})
        check_tree(ctx, dict(case, obj=obj))
    elif what == "treelist":
        obj = FIXED_LIST
        if variant == "empty_ns":
            obj = dict(obj, empty_ns=True)
        elif variant == "no_trees_empty_ns":
            obj = dict(obj, empty_ns=True, trees=[])
        elif variant:
            obj = dict(obj, trees=[dict(_LIST_TREE, pair={"before": variant == "pair_before", "with_taxa": bool(item["mut"]["sel"] & 1),
                                                          "mask": 0b0111}), FIXED_SMALL_TREE])
        check_list(ctx, dict(case, obj=obj, tmut=item.get("tmut", item["mut"]), newtree=FIXED_SMALL_TREE))
    elif what == "matrix":
        check_matrix(ctx, dict(case, obj=dict(FIXED_MATRIX, empty_ns=True) if variant == "empty_ns" else FIXED_MATRIX))
    else:
        check_ns(ctx, dict(case, obj=FIXED_NS))


SUBCHECKS = {"exhaustive": check_exh}
PLAN = []
for _r in TREE_ROUTES:
    SUBCHECKS["tree:" + _r] = check_tree
    PLAN.append(("tree:" + _r, "tree", _r))
for _r in LIST_ROUTES:
    SUBCHECKS["treelist:" + _r] = check_list
    PLAN.append(("treelist:" + _r, "treelist", _r))
for _r in MATRIX_ROUTES:
    SUBCHECKS["matrix:" + _r] = check_matrix
    PLAN.append(("matrix:" + _r, "matrix", _r))
for _r in NS_ROUTES:
    SUBCHECKS["namespace:" + _r] = check_ns
    PLAN.append(("namespace:" + _r, "namespace", _r))


def run(ctx):
    quick = ctx.tier == "quick"
    # examples per route over all shards
    per_route = {"tree": 200 if quick else 12000, "treelist": 80 if quick else 4000, "matrix": 140 if quick else 8000,
                 "namespace": 80 if quick else 4000}
    runner.run_items(ctx, "exhaustive", exhaustive_items([1] if quick else [0, 1, 6]), check_exh)
    # rotate so that, should the time budget bite, every shard drops a different tail
    plan = PLAN[ctx.shard % len(PLAN):] + PLAN[:ctx.shard % len(PLAN)]
    for name, what, route in plan:
        n = max(1, per_route[what] // ctx.nshards)
        if what == "tree":
            runner.run_given(ctx, name, tree_cases(8 if quick else 40, route=route), check_tree, n)
        elif what == "treelist":
            runner.run_given(ctx, name, list_cases(6 if quick else 20, route=route), check_list, n)
        elif what == "matrix":
            runner.run_given(ctx, name, matrix_cases(5 if quick else 12, 6 if quick else 30, route=route), check_matrix, n)
        else:
            runner.run_given(ctx, name, ns_cases(6 if quick else 25, route=route), check_ns, n)
