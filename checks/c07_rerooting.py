"""C07 - re-rooting and re-orienting never change the underlying unrooted tree.

Oracle: RefTree snapshots before/after (leaf set, unrooted split set, total length, all leaf-to-leaf path lengths) plus
geometric predicates for midpoint / edge / outgroup rooting."""
import random

from hypothesis import strategies as st

from lib import runner, shapes, treechecks
from lib.refmodel import RefTree, all_rooted_trees
from lib.snapshot import snapshot

CONFIG = {
    "shards": {"quick": 8, "thorough": 16},
    "budget_s": {"quick": 120, "thorough": 1500},
    "rule": ("Hypothesis: shape (3-10 leaves quick / <= 30 thorough, polytomies, unifurcations) x rooting flag "
             "{True,False,None} x length pattern (none, unit, small ints incl. 0, dyadic, general floats, ultrametric-"
             "like) x operation (reseed_at / reroot_at_node at every internal node, reroot_at_edge at internal and "
             "terminal edges with a drawn split point, reroot_at_midpoint, to_outgroup_position at every non-seed "
             "node, randomly_reorient, randomly_rotate, ladderize, reorder) x update_bipartitions x "
             "suppress_unifurcations x collapse_unrooted_basal_bifurcation (where offered), optionally with a current "
             "encoding before the call. Exhaustive part: every target of every labelled tree on <= 4 (quick) / 5 "
             "(thorough) leaves with unit lengths. History part: 2-4 operations in a row on ONE tree object, each judged against "
             "the snapshot taken just before it (midpoint twice with a re-rooting in between, etc.). Non-trivial = target is not already the seed / operation changes "
             "the drawing; distinct = (spec, rooting, op, target, flags). Midpoint classes (on vertex / inside edge / "
             "tie between farthest pairs) are counted separately."),
    "exhaustive_note": {"quick": "all labelled rooted trees on 3-4 leaves x 2 rootings x every op target, unit lengths",
                        "thorough": "all labelled rooted trees on 3-5 leaves x 2 rootings x every op target, unit lengths"},
    "assumptions": ["root edge carries no length", "reseed_at / reroot_at_node targets are internal nodes (documented domain)",
                    "length and path clauses are asserted only when all non-root lengths are present",
                    "midpoint rooting requires non-negative numeric lengths on every non-root edge and >= 2 leaves"],
}

OPS = ["reseed_at", "reroot_at_node", "reroot_at_edge", "reroot_at_midpoint", "to_outgroup_position",
       "randomly_reorient", "randomly_rotate", "ladderize", "reorder"]
SOFT = {"reseed_at", "to_outgroup_position", "randomly_reorient", "randomly_rotate", "ladderize", "reorder"}

TOL = 1e-9


@st.composite
def cases(draw, max_leaves):
    op = draw(st.sampled_from(OPS + ["reroot_at_midpoint", "to_outgroup_position", "reroot_at_edge"]))
    pats = ("none", "unit", "smallint", "dyadic", "float", "partial")
    if op == "reroot_at_midpoint":
        pats = ("unit", "unit", "smallint", "dyadic", "float", "decimal", "decimal", "zeroish", "zeroish")
    sl = draw(shapes.with_lengths(shapes.shapes(min_leaves=2 if op == "reroot_at_midpoint" else 3, max_leaves=max_leaves,
                                                max_arity=4, unifurcations=True), patterns=pats))
    return {"spec": sl["spec"], "lenpat": sl["lenpat"], "rooted": draw(st.sampled_from([True, False, None])), "op": op,
            "target": draw(st.integers(0, 200)), "frac": draw(st.integers(0, 8)),
            "ub": draw(st.booleans()), "su": draw(st.booleans()), "cb": draw(st.booleans()),
            "asc": draw(st.booleans()), "seed": draw(st.integers(0, 2 ** 31)), "encode_first": draw(st.booleans()),
            # a tree may carry a length on the edge subtending its seed ("(...):0.5;"): it belongs to the total length
            "root_len": draw(st.sampled_from([None, None, None, 0.5, 2.0, 0.0])),
            # internal nodes / the seed may carry taxa of their own; the clauses speak about leaf taxa
            "inner": draw(shapes.inner_taxa_picks()),
            # midpoint only: the tree was midpoint-rooted before and its rooting flag re-declared, so the midpoint now
            # sits on an existing node - exactly, or up to the rounding of a differently ordered sum
            "pre_mid": draw(st.booleans())}


@st.composite
def history_cases(draw, max_leaves):
    sl = draw(shapes.with_lengths(shapes.shapes(min_leaves=4, max_leaves=max_leaves, max_arity=3, unifurcations=False),
                                  patterns=("unit", "smallint", "dyadic", "float", "dyadic", "decimal", "zeroish")))
    ops = []
    for _ in range(draw(st.integers(2, 4))):
        ops.append({"op": draw(st.sampled_from(["reroot_at_midpoint", "reroot_at_midpoint", "reroot_at_node", "reseed_at", "reroot_at_edge",
                                               "to_outgroup_position", "randomly_reorient", "ladderize"])),
                    "target": draw(st.integers(0, 200)), "frac": draw(st.integers(0, 8)), "ub": draw(st.booleans()), "su": True,
                    "cb": draw(st.booleans()), "asc": draw(st.booleans()), "seed": draw(st.integers(0, 2 ** 31)),
                    # the rooting flag may be re-declared between two operations (tree.is_rooted = ...)
                    "pre_flag": draw(st.sampled_from(["keep", "keep", "keep", True, False, None]))})
    return {"spec": sl["spec"], "lenpat": sl["lenpat"], "rooted": draw(st.sampled_from([True, False, None])), "ops": ops}


def close(a, b, scale):
    return abs(a - b) <= TOL * (1.0 + abs(scale))


def check_case(ctx, case):
    import dendropy
    spec = case["spec"]
    before = RefTree.from_spec(spec)
    n = before.n_leaves()
    ns, taxa, bits = shapes.build_namespace(shapes.plain_history(n))
    tree = shapes.build_tree(spec, ns, taxa, is_rooted=case["rooted"])
    if case.get("root_len") is not None:
        tree.seed_node.edge.length = case["root_len"]
        ctx.cls("seed_edge_has_length")
    if shapes.add_inner_taxa(tree, ns, case.get("inner")):
        ctx.cls("taxon_on_internal_node")
        if len(tree.seed_node._child_nodes) == 1:
            # a seed with a single child that carries a taxon is a tip in all but name (it becomes a leaf as soon as
            # the tree is re-seeded elsewhere): not an internal node in the sense of the statement
            tree.seed_node.taxon = None
    if case.get("pre_mid") and case["op"] == "reroot_at_midpoint" and len(tree.seed_node._child_nodes) != 1:
        # (a seed of outdegree 1 is the domain of the recorded finding C07.phantom_leaf:seed_outdegree_1)
        ctx.call("C07.reroot_at_midpoint", tree.reroot_at_midpoint)
        tree.is_rooted = case["rooted"]
        ctx.cls("midpoint:tree_was_midpoint_rooted_before")
    pre, problems = snapshot(tree)
    if problems:
        raise runner.HarnessError("built tree not well formed: %r" % problems)
    if case["encode_first"]:
        tree.encode_bipartitions(suppress_unifurcations=False, collapse_unrooted_basal_bifurcation=False)
    run_op(ctx, tree, bits, pre, case, spec)


def check_history(ctx, case):
    """Several operations in a row on ONE tree object: every step is judged against the snapshot taken just before it
    (nothing computed for an earlier drawing of the tree may be reused)."""
    spec = case["spec"]
    n = RefTree.from_spec(spec).n_leaves()
    ns, taxa, bits = shapes.build_namespace(shapes.plain_history(n))
    tree = shapes.build_tree(spec, ns, taxa, is_rooted=case["rooted"])
    kinds = []
    for k, opc in enumerate(case["ops"]):
        pre, problems = snapshot(tree)
        if problems:
            raise runner.HarnessError("tree not well formed before step %d: %r" % (k, problems))
        if len(pre.internals()) == 0 or pre.n_leaves() < 3:
            return
        if any(pre.taxon[i] is None for i in pre.leaves()):
            return  # phantom leaf from the known outdegree-1-seed finding: history ends
        step = dict(opc)
        if k and step.get("pre_flag", "keep") != "keep":
            tree.is_rooted = step["pre_flag"]
            ctx.cls("history:flag_redeclared_between_steps")
        step["rooted"] = tree.is_rooted
        step["lenpat"] = case["lenpat"]
        step["encode_first"] = False
        if step["op"] == "reroot_at_midpoint" and not all(pre.length[i] is not None and pre.length[i] >= 0 for i in pre.nodes() if i != pre.root):
            step["op"] = "reseed_at"
        if k:
            ctx.evaluations += 1   # every step of a history is one judged (tree, operation) case
        run_op(ctx, tree, bits, pre, step, spec, history=kinds)
        kinds.append(step["op"])
    if len(kinds) >= 2:
        ctx.cls("history:%d_steps" % len(kinds))
        if kinds.count("reroot_at_midpoint") >= 2:
            ctx.cls("history:midpoint_twice")


def run_op(ctx, tree, bits, pre, case, spec, history=None):
    op = case["op"]
    rooted_flag = case["rooted"]
    before = pre
    ub, su, cb = case["ub"], case["su"], case["cb"]
    nodes = pre.nodes()
    internals = [i for i in pre.internals()]
    nonseed = [i for i in nodes if i != pre.root]
    tag = "%s rooted=%r ub=%r su=%r cb=%r%s" % (op, rooted_flag, ub, su, cb, "" if history is None else " after %r" % (history,))
    info = {}
    trivial = False
    key = "C07." + op
    lengths_ok = before.all_lengths_present()

    if op in ("reseed_at", "reroot_at_node"):
        tgt = internals[case["target"] % len(internals)]
        trivial = tgt == pre.root
        nd = pre.obj[tgt]
        info["target_cluster"] = sorted(pre.clusters()[tgt])
        if op == "reseed_at":
            ctx.call(key, tree.reseed_at, nd, update_bipartitions=ub, collapse_unrooted_basal_bifurcation=cb,
                     suppress_unifurcations=su)
        else:
            ctx.call(key, tree.reroot_at_node, nd, update_bipartitions=ub, suppress_unifurcations=su,
                     collapse_unrooted_basal_bifurcation=cb)
    elif op == "reroot_at_edge":
        tgt = nonseed[case["target"] % len(nonseed)]
        nd = pre.obj[tgt]
        L = pre.length[tgt]
        if L is None:
            l1 = l2 = None
        else:
            l1 = L * case["frac"] / 8.0
            l2 = L - l1
        info.update(head_cluster=sorted(pre.clusters()[tgt]), l1=l1, l2=l2,
                    terminal=not pre.children[tgt])
        ctx.cls("edge_target:%s" % ("terminal" if not pre.children[tgt] else "internal"))
        ctx.call(key, tree.reroot_at_edge, nd.edge, length1=l1, length2=l2, update_bipartitions=ub,
                 suppress_unifurcations=su)
    elif op == "reroot_at_midpoint":
        ctx.call(key, tree.reroot_at_midpoint, update_bipartitions=ub, suppress_unifurcations=su,
                 collapse_unrooted_basal_bifurcation=cb)
    elif op == "to_outgroup_position":
        # an outgroup whose parent is a unifurcating seed is the whole tree: nothing to position it against
        cand = [i for i in nonseed if not (pre.parent[i] == pre.root and len(pre.children[pre.root]) == 1)]
        tgt = cand[case["target"] % len(cand)]
        nd = pre.obj[tgt]
        info["outgroup_cluster"] = sorted(pre.clusters()[tgt])
        ctx.call(key, tree.to_outgroup_position, nd, update_bipartitions=ub, suppress_unifurcations=su)
    elif op == "randomly_reorient":
        ctx.call(key, tree.randomly_reorient, rng=random.Random(case["seed"]), update_bipartitions=ub)
    elif op == "randomly_rotate":
        ctx.call(key, tree.randomly_rotate, rng=random.Random(case["seed"]))
    elif op == "ladderize":
        ctx.call(key, tree.ladderize, ascending=case["asc"])
    elif op == "reorder":
        ctx.call(key, tree.reorder, ascending=case["asc"])
    else:
        raise runner.HarnessError(op)

    after = treechecks.wellformed(ctx, tree, "well_formed_after_" + op, "C07.wellformed:" + op, tag)
    d = lambda: "%s before=%s after=%s info=%r" % (tag, before.canon(lengths=True), after.canon(lengths=True), info)

    # leaf set (taxa) and phantom leaves
    lt_after = sorted(str(after.taxon[i]) for i in after.leaves() if after.taxon[i] is not None)
    lt_before = sorted(str(before.taxon[i]) for i in before.leaves())
    ctx.check(lt_after == lt_before, "leaf_set_unchanged", "C07.leafset:" + op, d)
    phantom = [i for i in after.leaves() if after.taxon[i] is None]
    if phantom:
        seed_outdeg1 = len(before.children[before.root]) == 1
        ctx.check(False, "no_phantom_leaf", "C07.phantom_leaf:seed_outdegree_1" if seed_outdeg1 else "C07.phantom_leaf:other:" + op, d)
        raise runner.KnownSkip()
    # unrooted split set
    ctx.check(after.unrooted_split_set() == before.unrooted_split_set(), "unrooted_splits_unchanged",
              "C07.splits:" + op, d)
    # rooting flag
    if op in SOFT:
        ctx.check(tree.is_rooted is rooted_flag, "soft_op_keeps_rooting_flag", "C07.flag_soft:" + op,
                  lambda: "%s flag now %r" % (tag, tree.is_rooted))
    else:
        ctx.check(tree.is_rooted is True, "hard_op_sets_rooted", "C07.flag_hard:" + op,
                  lambda: "%s flag now %r" % (tag, tree.is_rooted))
    # lengths
    if lengths_ok:
        tb, ta = before.total_length(include_root=True), after.total_length(include_root=True)
        ctx.check(close(tb, ta, tb), "total_length_unchanged", "C07.total_length:" + op,
                  lambda: "%s total before %r after %r; %s" % (tag, tb, ta, d()))
        pb, pa = before.leaf_paths(), after.leaf_paths()
        D = max([v[0] for v in pb.values()] + [0.0])
        bad = [k for k in pb if k not in pa or not close(pb[k][0], pa[k][0], D)]
        ctx.check(not bad, "leaf_paths_unchanged", "C07.paths:" + op,
                  lambda: "%s pair %s before %r after %r; %s" % (tag, sorted(bad[0]), pb[bad[0]], pa.get(bad[0]), d()))
    # op specific
    if op == "to_outgroup_position":
        kids = after.children[after.root]
        # a unifurcating outgroup node is itself removed by the requested unifurcation suppression; then the first
        # child must be the node standing for the same clade
        same_obj = bool(kids) and after.obj[kids[0]] is nd
        same_clade = bool(kids) and sorted(after.clusters()[kids[0]]) == info["outgroup_cluster"]
        if len(pre.children[tgt]) == 1 and su:
            ctx.check(same_clade, "outgroup_is_first_child", "C07.outgroup_first", d)
        else:
            ctx.check(same_obj and same_clade, "outgroup_is_first_child", "C07.outgroup_first", d)
    if op == "reroot_at_edge":
        cl = after.clusters()
        below = frozenset(info["head_cluster"])
        kids = after.children[after.root]
        sides = sorted([sorted(cl[k]) for k in kids])
        want_sides = sorted([sorted(below), sorted(before.leafset() - below)])
        ctx.check(sides == want_sides, "edge_root_separates_head_side", "C07.edge_sides", d)
        if lengths_ok and sides == want_sides:
            D = max([v[0] for v in before.leaf_paths().values()] + [0.0])
            old_head = tgt
            old_tail = pre.parent[tgt]
            for i in after.leaves():
                lab = after.taxon[i]
                got = after.dist_to_root(i)
                j = before.node_of_taxon(lab)
                if lab in below:
                    want = info["l2"] + before.path(j, old_head)[0]
                else:
                    want = info["l1"] + before.path(j, old_tail)[0]
                ctx.check(close(got, want, D), "edge_root_at_requested_distances", "C07.edge_distances",
                          lambda: "leaf %s: root distance %r want %r; %s" % (lab, got, want, d()))
    if op == "reroot_at_midpoint" and lengths_ok:
        pa = after.leaf_paths()
        if pa:
            D = max(v[0] for v in pa.values())
            far = [k for k, v in pa.items() if v[0] >= D - TOL * (1 + D)]
            ok = False
            for k in far:
                x, y = sorted(k)
                dx = after.dist_to_root(after.node_of_taxon(x))
                dy = after.dist_to_root(after.node_of_taxon(y))
                if close(dx, D / 2.0, D) and close(dy, D / 2.0, D):
                    ok = True
            ctx.check(ok, "midpoint_is_halfway_on_a_longest_path", "C07.midpoint",
                      lambda: "D=%r farthest pairs=%r; %s" % (D, [sorted(k) for k in far], d()))
            # classes: did the midpoint fall on an existing vertex of the original tree?
            onvertex = False
            x, y = sorted(far[0])
            bx, by = before.node_of_taxon(x), before.node_of_taxon(y)
            m = before.lca(bx, by)
            for start in (bx, by):
                acc = 0.0
                v = start
                while v != m:
                    acc += before.length[v] or 0.0
                    v = before.parent[v]
                    if close(acc, D / 2.0, D):
                        onvertex = True
            ctx.cls("midpoint:%s" % ("on_vertex" if onvertex else "inside_edge"))
            if len(far) > 1:
                ctx.cls("midpoint:tie_between_farthest_pairs")
    if ub and op in ("reseed_at", "reroot_at_node", "reroot_at_edge", "reroot_at_midpoint", "to_outgroup_position",
                     "randomly_reorient"):
        treechecks.encoding_current(ctx, tree, after, bits, "encoding_current_after_update", "C07.encoding:" + op, tag)

    if not trivial:
        ctx.nontrivial([spec, rooted_flag, op, case["target"], case["frac"], ub, su, cb, case["seed"], case["asc"]])
    ctx.cls("op:" + op)
    ctx.cls("lenpat:" + case["lenpat"])
    ctx.sample(op, {"newick": shapes.spec_to_newick(spec), "rooted": rooted_flag, "op": op, "info": info,
                    "flags": [ub, su, cb], "after": after.canon(ordered=True, lengths=True)})


def exhaustive_items(maxn):
    items = []
    for n in range(3, maxn + 1):
        for idx, spec in enumerate(all_rooted_trees(range(n))):
            nn = sum(1 for _ in shapes.spec_nodes(spec))
            for rooted in (True, False):
                for op in ("reseed_at", "reroot_at_node", "reroot_at_edge", "to_outgroup_position", "reroot_at_midpoint"):
                    targets = [0] if op == "reroot_at_midpoint" else range(nn)
                    for tg in targets:
                        for flags in ((False, True, True), (True, True, True), (False, False, False)):
                            items.append({"n": n, "idx": idx, "rooted": rooted, "op": op, "target": tg,
                                          "ub": flags[0], "su": flags[1], "cb": flags[2]})
    # midpoint rooting of every small shape under length assignments in tenths (sums along different paths coincide
    # only up to rounding), from a fresh tree and from one that was midpoint-rooted before and then re-declared
    for n in range(3, maxn + 1):
        for idx, spec in enumerate(all_rooted_trees(range(n))):
            for lens in range(4):
                for rooted in (True, False, None):
                    for pre in (False, True):
                        items.append({"n": n, "idx": idx, "rooted": rooted, "op": "reroot_at_midpoint", "target": 0, "ub": bool(lens % 2),
                                      "su": True, "cb": False, "tenths": lens, "pre_mid": pre})
    return items


_TREES = {}


def check_exh(ctx, item):
    n = item["n"]
    if n not in _TREES:
        _TREES[n] = list(all_rooted_trees(range(n)))
    spec = shapes.copy_spec(_TREES[n][item["idx"]])
    TENTHS = ([0.1, 0.2, 0.3, 0.1, 0.2, 0.7], [0.3, 0.1, 0.2, 0.4, 0.1], [0.05, 0.15, 0.1, 0.3, 0.25, 0.2, 0.1], [0.7, 0.1, 0.2, 0.3])
    for k, s in enumerate(shapes.spec_nodes(spec)):
        if k:
            if "tenths" in item:
                seq = TENTHS[item["tenths"]]
                s["len"] = seq[(k + item["idx"]) % len(seq)]
            else:
                s["len"] = 1.0
    case = {"spec": spec, "lenpat": "decimal" if "tenths" in item else "unit", "rooted": item["rooted"], "op": item["op"], "target": item["target"],
            "frac": 4, "ub": item["ub"], "su": item["su"], "cb": item["cb"], "asc": True, "seed": 0, "encode_first": False,
            "pre_mid": bool(item.get("pre_mid"))}
    check_case(ctx, case)


SUBCHECKS = {"random": check_case, "exhaustive": check_exh, "history": check_history}


def run(ctx):
    quick = ctx.tier == "quick"
    total = 4000 if quick else 96000
    runner.run_given(ctx, "random", cases(10 if quick else 30), check_case, total // ctx.nshards)
    runner.run_items(ctx, "exhaustive", exhaustive_items(4 if quick else 5), check_exh)
    runner.run_given(ctx, "history", history_cases(9 if quick else 20), check_history, (1600 if quick else 30000) // ctx.nshards)
