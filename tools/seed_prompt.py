#!/usr/bin/env python3
"""Print the prompt for a blind 'seeded change' sub-agent for property Cxx (nothing from /verif except the property text)."""
import json, sys
pid = sys.argv[1]; wt = sys.argv[2]
round2 = len(sys.argv) > 3 and sys.argv[3] == "round2"
for line in open("/verif/properties.jsonl"):
    d = json.loads(line)
    if d["id"] == pid:
        break
import glob, os
EXTRA = ""
if round2:
    taken = []
    for dd in sorted(glob.glob("/verif/seeded/%s-*" % pid)):
        try:
            m = json.load(open(os.path.join(dd, "meta.json")))
            taken.append("   - %s (%s)" % (m.get("title", "?"), ", ".join(m.get("files", []))[:120]))
        except Exception:
            pass
    EXTRA = ("This is a LATER round: earlier volunteers already produced the changes listed below - do not repeat them or close variants; pick different functions / clauses of the statement. Prefer harder-to-expose changes: two cooperating edits in different functions that each look harmless alone; state that goes stale only after a specific three-step history; a boundary condition (exactly equal values, empty collection, single element, zero, maximum); an interaction of two optional flags; behaviour that differs only for one rooting state, one data type or one file format; a public entry point, keyword argument or legitimate-but-unusual object state (of the anchored files) that none of the listed changes touches. Scratch files go inside your worktree's seeded_out directory, not directly in /tmp.\n Already taken:\n" + "\n".join(taken))
print(f"""You are helping to evaluate a verification framework for the open-source Python library DendroPy (phylogenetics: trees, character matrices, NEXUS/Newick/NeXML readers and writers). Your task is to play the role of a developer who introduces a realistic REGRESSION.

You work ONLY inside your own scratch git worktree of the library at {wt} (source under {wt}/src/dendropy, tests under {wt}/tests). Do not read or write anything under /verif or /repo, and do not look at other directories under /tmp. Python to use: /venv/bin/python (run things with PYTHONPATH={wt}/src so your worktree's code is imported, and check `dendropy.__file__`).

The property that must be BROKEN by your change ("{d['title']}"):

  {d['statement']}

  It is meant to hold: {d['quantifier']['text']}
  Code it is anchored in: {', '.join(d['anchors']['files'])}

Produce TWO independent changes (A and B) to the library source, each of which:
 1. breaks the property above (some behaviour covered by the statement becomes wrong) while the code still imports and runs;
 2. still passes the existing test suite: run `cd {wt} && PYTHONPATH={wt}/src /venv/bin/python -m pytest -q -p no:cacheprovider -x -q -n 8 tests 2>&1 | tail -5` - exactly 5 tests fail already on the unmodified code (3 in test_datamodel_split_bitmasks.py::SplitCountTest, testMeanNodeAgeSummarizationOnMCCT, and one GEBA-data test); your change must not add failures;
 3. needs something SPECIFIC to manifest - a particular multi-step sequence of operations, an unusual but legitimate input (e.g. a particular tree shape, a namespace from which a taxon was removed, equal edge lengths, a label with special characters, an empty sub-collection), a particular flag combination, or two cooperating edits that each look harmless alone - NOT something any ordinary use would expose at once. Think of plausible developer mistakes: an off-by-one, a wrong default, a missed case in a refactoring, a cache that is not invalidated, an optimisation that is only valid for binary trees, a swapped argument.
 4. is small (1-15 changed lines) and looks like a plausible commit.
A and B must have different root causes in different functions.
{EXTRA}

For EACH change deliver, in the directory {wt}/seeded_out/A (resp. B):
 - patch.diff : `git diff` of the change against the worktree's HEAD (only that change applied);
 - demo.py : a small standalone program that uses only the public DendroPy API, exits 0 and prints PASS on the UNMODIFIED code, and exits 1 printing FAIL with a short explanation on the code with the change applied (it demonstrates a violation of the property statement above, not merely "the output changed");
 - meta.json : {{"property": "{pid}", "title": short title of the change, "what_it_breaks": one or two sentences, "needs_to_manifest": what specific input/sequence/flags are needed, "files": [...], "tests_run": the exact test command and its result line with and without the change}}.
Verify all of this yourself: run demo.py and the test suite with the patch applied and with it reverted (use `git diff > patch.diff; git checkout -- src; git apply patch.diff` - NEVER `git stash`: the stash is shared between worktrees and other agents work concurrently). Run the test suite WITHOUT -x so the full list of failures can be compared. Leave the worktree with NO modifications to tracked files at the end (only the untracked seeded_out directory). Finish with a brief report of the two changes.""")
