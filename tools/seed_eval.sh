#!/bin/bash
# usage: tools/seed_eval.sh <source dir with patch.diff demo.py meta.json> <Cxx> <name>
# Confirms a seeded change in the scratch worktree /tmp/wt_mut (never in /repo): demo passes without / fails with the
# patch, the pinned test suite still passes with it, then runs the quick check against it.  Results -> /verif/seeded/<Cxx>-<name>/
SRC=$1; P=$2; NAME=$3
WT=${WT:-/tmp/wt_mut}
DEST=/verif/seeded/$P-$NAME
mkdir -p $DEST
cp $SRC/patch.diff $SRC/demo.py $SRC/meta.json $DEST/ 2>/dev/null
[ -d $WT ] || git -C /repo worktree add -q --detach $WT HEAD
git -C $WT checkout -q --detach $(git -C /repo rev-parse HEAD); git -C $WT checkout -q -- .; git -C $WT clean -fdq
cd $WT
PYTHONPATH=$WT/src /venv/bin/python $DEST/demo.py > $DEST/demo_unpatched.out 2>&1; D0=$?
if ! git apply --check $DEST/patch.diff 2>/dev/null; then echo "PATCH-DOES-NOT-APPLY $P-$NAME"; echo '{"applies": false}' > $DEST/eval.json; exit 3; fi
git apply $DEST/patch.diff
PYTHONPATH=$WT/src /venv/bin/python $DEST/demo.py > $DEST/demo_patched.out 2>&1; D1=$?
BL=$(/venv/bin/python /verif/tools/baseline.py --repo $WT | tail -1)
cd /verif
OUT=$(VERIF_REPO_SRC=$WT/src /venv/bin/python /verif/vp_check.py $P --tier quick --no-evidence 2>&1 | grep -v "^KNOWN")
RC=$(echo "$OUT" | grep -c "^VIOLATION")
HE=$(echo "$OUT" | grep -c "^HARNESS-ERROR")
echo "$OUT" | head -12 | cut -c1-700 > $DEST/check_quick.out
git -C $WT checkout -q -- .
python3 - "$DEST" "$D0" "$D1" "$BL" "$RC" "$HE" <<'PY'
import json, sys
dest, d0, d1, bl, rc, he = sys.argv[1:7]
ev = {"applies": True, "demo_exit_unpatched": int(d0), "demo_exit_patched": int(d1), "baseline_with_patch": bl,
      "quick_check_violation_lines": int(rc), "quick_check_harness_error_lines": int(he), "caught_by_quick": int(rc) > 0,
      "ran": ["demo.py without and with patch in a scratch worktree", "tools/baseline.py --repo <worktree> with patch", "vp_check.py --tier quick against the patched worktree (VERIF_REPO_SRC)"]}
json.dump(ev, open(dest + "/eval.json", "w"), indent=1)
print(dest, json.dumps(ev))
PY
