#!/usr/bin/env python3
"""For every repaired defect ("fixed:" line in known_findings.json): revert the fix: commit in the scratch worktree
/tmp/wt_rev (never in /repo), run the property's CURRENT quick check against it, and save the shrunk failing inputs as
regression inputs corpus/replays/<Cxx>_fix_<sha>_<n>.json (each confirmed to fail with the fix reverted and to pass on
/repo).  The runner replays these files at the start of every run, so a defect that returns is reported within seconds
and independently of the seed.  Results -> corpus/replays/fix_index.json.

usage: tools/fix_regress.py [Cxx|sha ...]
"""
import json, os, re, sys
sys.path.insert(0, os.path.dirname(os.path.abspath(__file__)))
from _harvest import sh, run_quick, harvest

WT = "/tmp/wt_rev"


def main():
    want = set(sys.argv[1:])
    kf = json.load(open("/verif/known_findings.json"))
    head = sh("git", "-C", "/repo", "rev-parse", "HEAD").stdout.strip()
    if not os.path.isdir(WT):
        sh("git", "-C", "/repo", "worktree", "add", "-q", "--detach", WT, "HEAD")
    idx_path = "/verif/corpus/replays/fix_index.json"
    try:
        index = json.load(open(idx_path))
    except Exception:
        index = {}
    for line in kf["fixed"]:
        m = re.match(r"fixed: property=(C\d+) ([0-9a-f]+) (.*)", line)
        prop, sha, what = m.groups()
        if want and prop not in want and sha not in want:
            continue
        sh("git", "-C", WT, "checkout", "-q", "--detach", head)
        sh("git", "-C", WT, "checkout", "-q", "--", ".")
        sh("git", "-C", WT, "clean", "-fdq")
        r = sh("git", "-C", WT, "revert", "--no-commit", sha)
        clean_revert = r.returncode == 0
        if not clean_revert:
            # later commits touched the same lines: take the pre-fix side of the overlapping hunks
            sh("git", "-C", WT, "revert", "--abort")
            sh("git", "-C", WT, "reset", "-q", "--hard", head)
            r = sh("git", "-C", WT, "revert", "--no-commit", "-X", "theirs", sha)
        if r.returncode != 0:
            sh("git", "-C", WT, "revert", "--abort")
            sh("git", "-C", WT, "reset", "-q", "--hard", head)
            index[sha] = {"property": prop, "reverts_cleanly": False, "what": what[:160]}
            print(prop, sha, "revert-conflict", flush=True)
            continue
        how = "quick tier, VERIF_SEED=1"
        rc, lines, replays = run_quick(prop, WT + "/src")
        nv = sum(ln.startswith("VIOLATION") for ln in lines)
        if not nv:
            # not rediscovered by the default quick run: other seeds, then the thorough tier (the saved input then
            # makes the quick tier deterministic about this defect)
            for seed, tier in ((2, "quick"), (3, "quick"), (4, "quick"), (1, "thorough")):
                rc, lines, replays = run_quick(prop, WT + "/src", seed=seed, tier=tier)
                nv = sum(ln.startswith("VIOLATION") for ln in lines)
                if nv:
                    how = "%s tier, VERIF_SEED=%d (missed by the quick tier at the seeds tried before)" % (tier, seed)
                    break
        nh = sum(ln.startswith("HARNESS-ERROR") for ln in lines)
        kept = harvest(prop, "fix_" + sha, replays, WT + "/src",
                       "shrunk failing input of the quick check with fix: commit %s reverted (%s)" % (sha, what[:200]))
        index[sha] = {"property": prop, "reverts_cleanly": clean_revert, "quick_exit_with_fix_reverted": rc, "violation_lines": nv,
                      "harness_error_lines": nh, "regression_inputs": kept, "what": what[:160], "found_by": how}
        print(prop, sha, "caught" if nv else ("HARNESS" if nh else "MISSED"), len(kept), flush=True)
        sh("git", "-C", WT, "reset", "-q", "--hard", head)
        json.dump(index, open(idx_path, "w"), indent=1, sort_keys=True)
    sh("git", "-C", "/repo", "worktree", "remove", "--force", WT)


if __name__ == "__main__":
    main()
