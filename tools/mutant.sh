#!/bin/bash
# usage: tools/mutant.sh <Cxx> <file-relative-to-src/dendropy> <python-regex-old> <new>   (uses /tmp/wt_mut worktree)
# applies a one-off textual mutation (first occurrence), runs the quick check against it, reverts.
WT=/tmp/wt_mut
[ -d $WT ] || git -C /repo worktree add -q --detach $WT HEAD
git -C $WT checkout -q --detach $(git -C /repo rev-parse HEAD) 2>/dev/null
git -C $WT checkout -q -- .
python3 - "$WT/src/dendropy/$2" "$3" "$4" <<'PY'
import sys
p, old, new = sys.argv[1:4]
s = open(p).read()
if old not in s:
    print("MUTANT-NOT-APPLIED: pattern not found"); sys.exit(3)
open(p, "w").write(s.replace(old, new, 1))
PY
[ $? -eq 0 ] || exit 3
VERIF_REPO_SRC=$WT/src /venv/bin/python /verif/vp_check.py $1 --tier quick --no-evidence | grep -v "^KNOWN" | head -${MUT_LINES:-4}
echo "mutant rc=${PIPESTATUS[0]}"
git -C $WT checkout -q -- .
