#!/venv/bin/python
"""Self-tests of the reference model (run by setup_cmd)."""
import os, sys
sys.path.insert(0, "/repo/src"); sys.path.insert(1, os.path.dirname(os.path.dirname(os.path.abspath(__file__))))
from lib.refmodel import RefTree, all_rooted_trees, all_ordered_shapes
def L(t, l=None): return {"t": t, "lab": None, "len": l, "ch": []}
def I(ch, l=None): return {"t": None, "lab": None, "len": l, "ch": ch}
spec = I([I([L(0, 1.0), L(1, 2.0)], 0.5), I([L(2, 1.0), I([L(3, 1.0)], 2.0)], 0.25)])
rt = RefTree.from_spec(spec)
assert rt.leafset() == frozenset(["T0", "T1", "T2", "T3"])
assert len(rt.unrooted_split_set(nontrivial_only=True)) == 1
assert rt.leaf_paths()[frozenset(["T0", "T3"])] == (1.0 + 0.5 + 0.25 + 2.0 + 1.0, 5)
r = rt.restrict(["T0", "T3"])
assert r.leaf_paths()[frozenset(["T0", "T3"])][0] == 4.75 and r.n_leaves() == 2 and len(r.nodes()) == 3
r1 = rt.restrict(["T3"]); assert len(r1.nodes()) == 1 and r1.length[0] == 3.25
for v in rt.internals():
    rr = rt.rerooted_at(v)
    assert rr.unrooted_split_set() == rt.unrooted_split_set()
    assert rr.leaf_paths() == rt.leaf_paths(), v
assert sum(1 for _ in all_rooted_trees(range(4))) == 26
assert sum(1 for _ in all_rooted_trees(range(5))) == 236
assert [sum(1 for _ in all_ordered_shapes(n)) for n in (1, 2, 3, 4)] == [1, 1, 3, 11]
sl = rt.split_lengths(rooted=False)
assert sl[frozenset([frozenset(["T0", "T1"]), frozenset(["T2", "T3"])])] == 0.75
# regression inputs must name a sub-check that still exists (a stale one silently tests nothing)
import glob, json
from lib import runner
_mods = {}
for f in sorted(glob.glob(os.path.join(runner.VERIF, "corpus", "replays", "C*_*.json"))):
    prop = os.path.basename(f).split("_")[0]
    mod = _mods.get(prop) or _mods.setdefault(prop, runner.load_check(prop))
    rec = json.load(open(f))
    assert rec["sub"] in mod.SUBCHECKS and "case" in rec, "stale regression input " + f
print("selftest ok (%d regression inputs)" % len(glob.glob(os.path.join(runner.VERIF, "corpus", "replays", "C*_*.json"))))
