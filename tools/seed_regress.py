#!/usr/bin/env python3
"""Re-run every seeded change under /verif/seeded against the CURRENT quick check of its property.

usage: tools/seed_regress.py [Cxx ...]        (default: all)
For each seeded/<Cxx>-<X>/patch.diff: apply it in the scratch worktree /tmp/wt_sreg (never in /repo), run
`vp_check.py Cxx --tier quick --no-evidence` against it (VERIF_REPO_SRC), undo it, and record the outcome in
eval.json under "regress" (check commit, violation / harness-error line counts); the shrunk failing inputs that
reproduce on the patched code and pass on /repo are saved as regression inputs corpus/replays/<Cxx>_seed_<X>_<n>.json.  "caught_by_quick" is updated to the
new outcome.  A patch that no longer applies (the code it touched was repaired by a fix: commit) is recorded as such.
The scratch worktree is removed at the end.
"""
import glob, json, os, subprocess, sys
sys.path.insert(0, os.path.dirname(os.path.abspath(__file__)))
from _harvest import sh, run_quick, harvest

WT = os.environ.get("SEED_REGRESS_WT", "/tmp/wt_sreg")


def main():
    want = set(sys.argv[1:])
    head = sh("git", "-C", "/repo", "rev-parse", "HEAD").stdout.strip()
    vhead = sh("git", "-C", "/verif", "rev-parse", "--short", "HEAD").stdout.strip()
    if not os.path.isdir(WT):
        sh("git", "-C", "/repo", "worktree", "add", "-q", "--detach", WT, "HEAD")
    sh("git", "-C", WT, "checkout", "-q", "--detach", head)
    rows = []
    for d in sorted(glob.glob("/verif/seeded/C*-*")):
        name = os.path.basename(d)
        prop = name.split("-")[0]
        if want and prop not in want and name not in want:
            continue
        sh("git", "-C", WT, "checkout", "-q", "--", ".")
        sh("git", "-C", WT, "clean", "-fdq")
        try:
            ev = json.load(open(d + "/eval.json"))
        except Exception:
            ev = {}
        if sh("git", "-C", WT, "apply", "--check", d + "/patch.diff").returncode != 0:
            ev["regress"] = {"verif_commit": vhead, "repo_commit": head[:8], "applies": False}
            rows.append((name, "does-not-apply"))
        else:
            sh("git", "-C", WT, "apply", d + "/patch.diff")
            rc, lines, replays = run_quick(prop, WT + "/src")
            nv = sum(ln.startswith("VIOLATION") for ln in lines)
            nh = sum(ln.startswith("HARNESS-ERROR") for ln in lines)
            ev["regress"] = {"verif_commit": vhead, "repo_commit": head[:8], "applies": True, "exit": rc,
                             "violation_lines": nv, "harness_error_lines": nh}
            ev["regress"]["regression_inputs"] = harvest(prop, "seed_" + name.split("-")[1], replays, WT + "/src",
                                                         "shrunk failing input of the quick check against seeded change " + name)
            ev["caught_by_quick"] = nv > 0
            ev["quick_check_violation_lines"] = nv
            ev["quick_check_harness_error_lines"] = nh
            open(d + "/check_quick.out", "w").write("\n".join(ln[:700] for ln in lines[:12]) + "\n")
            rows.append((name, "caught" if nv else ("HARNESS" if nh else "MISSED"), rc,
                         len(ev["regress"]["regression_inputs"])))
            sh("git", "-C", WT, "checkout", "-q", "--", ".")
        json.dump(ev, open(d + "/eval.json", "w"), indent=1)
        print(*rows[-1], flush=True)
    sh("git", "-C", "/repo", "worktree", "remove", "--force", WT)
    # replays produced against patched code are not evidence about /repo
    print("summary:", {k: sum(1 for r in rows if r[1] == k) for k in sorted(set(r[1] for r in rows))})


if __name__ == "__main__":
    main()
