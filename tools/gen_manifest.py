#!/usr/bin/env python3
"""Regenerate MANIFEST.json from tools/manifest_src.json + the check modules present."""
import json, os, sys
V = os.path.dirname(os.path.dirname(os.path.abspath(__file__)))
src = json.load(open(os.path.join(V, "tools", "manifest_src.json")))
checks = []
for pid, c in sorted(src["checks"].items()):
    checks.append({
        "property_id": pid,
        "quick_cmd": "/venv/bin/python vp_check.py %s --tier quick" % pid,
        "thorough_cmd": "/venv/bin/python vp_check.py %s --tier thorough" % pid,
        "evidence_file": "/verif/evidence/%s.json" % pid,
        "replay_cmd_template": "/venv/bin/python vp_check.py %s --replay {path}" % pid,
        "engine": c.get("engine", "hypothesis"),
        "level_claimed": {"category": "exploration", "text": c["text"], "design_ref": c.get("design_ref", "DESIGN.md section 3 (%s)" % pid)},
        "level_note": c["note"],
        "technique": c["technique"],
    })
na = list(src.get("not_applicable", []))
have = set(src["checks"]) | set(e["property_id"] for e in na)
for line in open(os.path.join(V, "properties.jsonl")):
    pid = json.loads(line)["id"]
    if pid not in have:
        na.append({"property_id": pid, "reason": "check not built yet (work in progress; planned in DESIGN.md section 3)"})
m = {
    "version": 1,
    "setup_cmd": src["setup_cmd"],
    "hooks": src["hooks"],
    "engines": src["engines"],
    "checks": checks,
    "notes": src["notes"],
    "not_applicable": na,
}
json.dump(m, open(os.path.join(V, "MANIFEST.json"), "w"), indent=1)
print("wrote MANIFEST.json with %d checks" % len(checks))
