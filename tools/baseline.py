#!/venv/bin/python
"""Run the repository's pinned test suite (guard OFF) and compare with BASELINE.json stable_pass.
Exit 0 iff every stable_pass test passes."""
import json, os, subprocess, sys, tempfile, xml.etree.ElementTree as ET
def main():
    base = json.load(open("/root/.vp/BASELINE.json")) if os.path.exists("/root/.vp/BASELINE.json") else None
    fd, junit = tempfile.mkstemp(suffix=".xml"); os.close(fd)
    env = dict(os.environ); env.pop("DENDROPY_VERIF", None)
    repo = "/repo"
    if "--repo" in sys.argv:
        repo = sys.argv[sys.argv.index("--repo") + 1]
        env["PYTHONPATH"] = os.path.join(repo, "src")
    par = ["-n", os.environ.get("BASELINE_JOBS", "12")] if "--serial" not in sys.argv else []
    cmd = ["/venv/bin/python", "-m", "pytest", "-ra", "-q", "-p", "no:cacheprovider", "--timeout=900",
           "--continue-on-collection-errors", "--junitxml=" + junit] + par
    p = subprocess.run(cmd, cwd=repo, env=env, stdout=subprocess.PIPE, stderr=subprocess.STDOUT, text=True)
    passed = set()
    try:
        for tc in ET.parse(junit).getroot().iter("testcase"):
            if not any(ch.tag in ("failure", "error", "skipped") for ch in tc):
                passed.add(tc.get("classname", "") + "::" + tc.get("name", ""))
    finally:
        os.unlink(junit)
    print(p.stdout[-600:])
    if base is None:
        print("no BASELINE.json; passed=%d" % len(passed)); return 0 if p.returncode in (0, 1) else 2
    want = base["stable_pass"]
    def norm(s): return s
    missing = [t for t in want if t not in passed]
    if missing:
        # junit classname includes class; baseline ids may be module::test or module.Class::test
        alt = set()
        for t in passed:
            alt.add(t)
        missing = [t for t in want if t not in alt]
    print("baseline stable_pass=%d passed_now=%d missing=%d" % (len(want), len(passed), len(missing)))
    for t in missing[:30]: print("  MISSING", t)
    return 0 if not missing else 1
sys.exit(main())
