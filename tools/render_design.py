#!/usr/bin/env python3
"""Re-render the generated parts of DESIGN.md (defect lists, seeded-change table) from known_findings.json and seeded/*."""
import glob, json, os, re
V = os.path.dirname(os.path.dirname(os.path.abspath(__file__)))
kf = json.load(open(os.path.join(V, "known_findings.json")))
def block(name, text):
    global s
    a, b = "<!-- BEGIN:%s -->" % name, "<!-- END:%s -->" % name
    i, j = s.index(a), s.index(b)
    s = s[:i + len(a)] + "\n" + text.rstrip() + "\n" + s[j:]
s = open(os.path.join(V, "DESIGN.md")).read()
rows = ["| property | /repo commit | what failed before the fix |", "|---|---|---|"]
for e in sorted(kf["fixed"], key=lambda e: e.split()[1]):
    m = re.match(r"fixed: property=(\S+) (\S+) (.*)", e)
    rows.append("| %s | `%s` | %s |" % (m.group(1), m.group(2), m.group(3).replace("|", "\\|")))
block("FIXED", "\n".join(rows))
rows = ["| property | key (what the check matches on) | what fails | why recorded, not repaired |", "|---|---|---|---|"]
for e in kf["findings"]:
    what = e["what"].replace("|", "\\|").replace("\n", " ")
    rows.append("| %s | `%s` | %s | %s |" % (e["property"], e["key"], what[:700] + ("…" if len(what) > 700 else ""), e.get("why_not_fixed", "repair is not small (see text)")))
block("OPEN", "\n".join(rows))
rows = ["| seeded change | what it breaks / what it needs | caught by quick tier | history |", "|---|---|---|---|"]
for d in sorted(glob.glob(os.path.join(V, "seeded", "*"))):
    try:
        meta = json.load(open(os.path.join(d, "meta.json"))); ev = json.load(open(os.path.join(d, "eval.json")))
    except Exception:
        continue
    rows.append("| %s: %s | %s Needs: %s | %s (%s) | %s |" % (
        os.path.basename(d), str(meta.get("title", "")).replace("|", "/"), str(meta.get("what_it_breaks", "")).replace("|", "/")[:400],
        str(meta.get("needs_to_manifest", "")).replace("|", "/")[:400], "yes" if ev.get("caught_by_quick") else "NO",
        ev.get("caught_by", "check " + os.path.basename(d).split("-")[0]), ev.get("history", "caught by the check as first written").replace("|", "/")))
block("SEEDED", "\n".join(rows))
rows = ["| id | sub-checks (SUBCHECKS keys) | quick: evaluations / distinct non-trivial / wall s (last committed evidence) | known-finding hits |", "|---|---|---|---|"]
import ast
for f in sorted(glob.glob(os.path.join(V, "evidence", "C*.json"))):
    ev = json.load(open(f)); pid = ev["property_id"]
    subs = ""
    for cf in glob.glob(os.path.join(V, "checks", pid.lower() + "_*.py")):
        src = open(cf).read()
        m = re.search(r"^SUBCHECKS\s*=\s*\{(.*?)\}", src, re.S | re.M)
        if m:
            subs = ", ".join(re.findall(r'"([^"]+)"\s*:', m.group(1)))
    cov = ev["coverage"]
    rows.append("| %s | %s | %s / %s / %s (%s tier, seed %s) | %s |" % (pid, subs or "(built dynamically)", cov["evaluations"], cov["distinct_nontrivial"], ev["wall_s"], ev["tier"], ev["seed"],
                ", ".join("%s x%d" % kv for kv in cov.get("known_findings_hit", {}).items()) or "-"))
block("COVERAGE", "\n".join(rows))
open(os.path.join(V, "DESIGN.md"), "w").write(s)
print("DESIGN.md rendered: %d fixed, %d open, %d seeded" % (len(kf["fixed"]), len(kf["findings"]), len(glob.glob(os.path.join(V, "seeded", "*")))))
