#!/venv/bin/python
"""setup_cmd: make sure hypothesis is importable in /venv (offline wheelhouse) and run the harness self-tests."""
import os, subprocess, sys
V = os.path.dirname(os.path.dirname(os.path.abspath(__file__)))
def have(mod, extra_path=None):
    env = dict(os.environ)
    if extra_path: env["PYTHONPATH"] = extra_path
    return subprocess.call([sys.executable, "-c", "import %s" % mod], env=env, stdout=subprocess.DEVNULL, stderr=subprocess.DEVNULL) == 0
if not have("hypothesis"):
    subprocess.check_call([sys.executable, "-m", "pip", "install", "--no-index", "--find-links", "/opt/veriftools/wheels", "hypothesis"])
deps = os.path.join(V, ".deps")
if not have("atheris", deps):
    rc = subprocess.call([sys.executable, "-m", "pip", "install", "--no-index", "--find-links", "/opt/veriftools/wheels", "--target", deps, "atheris"])
    if rc != 0:
        print("note: atheris not installable; C20 thorough falls back to Hypothesis-only")
rc = subprocess.call([sys.executable, os.path.join(V, "tools", "selftest.py")])
sys.exit(rc)
