"""Shared helper for tools/seed_regress.py and tools/fix_regress.py: run the quick check of a property against a
modified copy of the library in a scratch worktree and harvest the shrunk failing inputs it produces as regression
inputs (corpus/replays/), after confirming that each one FAILS on the modified code and PASSES on /repo."""
import glob, json, os, shutil, subprocess

VERIF = "/verif"
PY = "/venv/bin/python"


def sh(*a, **k):
    return subprocess.run(a, capture_output=True, text=True, **k)


def run_quick(prop, src, budget="3600", seed=None, tier="quick"):
    """-> (returncode, non-KNOWN output lines, replay paths written by this run)"""
    rd = os.path.join(VERIF, "replays", prop)
    shutil.rmtree(rd, ignore_errors=True)
    env = dict(os.environ, VERIF_REPO_SRC=src)
    if seed is not None:
        env["VERIF_SEED"] = str(seed)
    r = sh(PY, VERIF + "/vp_check.py", prop, "--tier", tier, "--no-evidence", "--budget", budget, env=env, cwd=VERIF)
    lines = [ln for ln in (r.stdout + r.stderr).splitlines() if not ln.startswith("KNOWN")]
    return r.returncode, lines, sorted(glob.glob(rd + "/*.json"))


def replay_rc(prop, path, src=None):
    env = dict(os.environ)
    if src:
        env["VERIF_REPO_SRC"] = src
    else:
        env.pop("VERIF_REPO_SRC", None)
    return sh(PY, VERIF + "/vp_check.py", prop, "--replay", path, env=env, cwd=VERIF).returncode


def harvest(prop, tag, replays, src, origin, limit=2):
    """Copy up to `limit` replay files to corpus/replays/<prop>_<tag>_<n>.json when they fail on `src` and pass on /repo."""
    kept = []
    dst_dir = os.path.join(VERIF, "corpus", "replays")
    os.makedirs(dst_dir, exist_ok=True)
    for old in glob.glob(os.path.join(dst_dir, "%s_%s_*.json" % (prop, tag))):
        os.remove(old)
    for p in replays:
        if len(kept) >= limit:
            break
        if os.path.getsize(p) > 300000:
            continue
        if replay_rc(prop, p, src) != 1:
            continue            # does not reproduce from the saved input alone (depends on process state): not kept
        if replay_rc(prop, p, None) != 0:
            continue            # must be quiet on /repo
        rec = json.load(open(p))
        rec["origin"] = origin
        dst = os.path.join(dst_dir, "%s_%s_%d.json" % (prop, tag, len(kept)))
        json.dump(rec, open(dst, "w"), indent=1)
        kept.append(os.path.relpath(dst, VERIF))
    return kept
